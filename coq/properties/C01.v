(* C01 - A built segment returns exactly the postings its documents imply
   Property theorems only: each statement is given in full and closed by `exact`;
   Print Assumptions follows every theorem.  matching_terms f t doc = the input terms of doc in field f with bytes t, in input order; implied_freq / implied_locs / implied_norm are their summed frequency, concatenated resolved locations and the norm of the summed field length. *)

From Coq Require Import List NArith Bool Sorting Permutation.
From Ice Require Import Base Spec Varint Chunk Postings IntCoder.
From IceProofs Require Build_Proofs Sort_Proofs IntCoder_Proofs.
Import ListNotations.
Open Scope N_scope.

(* documents are numbered 0..n-1 *)
Theorem build_count :
    forall (norm : bytes -> N -> N) (b : Batch), o_count (abs_of_batch norm b) = lenN b.
Proof. exact @Build_Proofs.build_count. Qed.
Print Assumptions build_count.

(* the field list is _id followed by the remaining field names in sorted order *)
Theorem build_fields :
    forall (norm : bytes -> N -> N) (b : Batch),
    o_fields (abs_of_batch norm b) = field_list (batch_field_names b).
Proof. exact @Build_Proofs.build_fields. Qed.
Print Assumptions build_fields.

(* no field the batch does not imply *)
Theorem build_fields_In :
    forall (norm : bytes -> N -> N) (b : Batch) (f : bytes),
    In f (o_fields (abs_of_batch norm b)) <->
    f = id_name \/ (exists (d : Doc) (fld : Field), In d b /\ In fld d /\ f_name fld = f).
Proof. exact @Build_Proofs.build_fields_In. Qed.
Print Assumptions build_fields_In.

(* for every field and term: exactly the documents containing the term, each with the summed frequency, the norm of the field's total length and the locations in input order with their field names *)
Theorem build_postings :
    forall (norm : bytes -> N -> N) (b : Batch) (f t : bytes),
    o_postings (abs_of_batch norm b) f t =
    flat_map'
    (fun '(n, doc) =>
    match Build_Proofs.matching_terms f t doc with
    | [] => []
    | _ :: _ =>
    [(n,
    (Build_Proofs.implied_freq f t doc,
    (Build_Proofs.implied_norm norm f doc, Build_Proofs.implied_locs f t doc)))]
    end) (number_from 0 b).
Proof. exact @Build_Proofs.build_postings. Qed.
Print Assumptions build_postings.

(* in ascending document order *)
Theorem build_postings_ascending :
    forall (norm : bytes -> N -> N) (b : Batch) (f t : bytes),
    StronglySorted (fun p q : APosting => fst p < fst q) (o_postings (abs_of_batch norm b) f t).
Proof. exact @Build_Proofs.build_postings_ascending. Qed.
Print Assumptions build_postings_ascending.

(* no term the batch does not imply *)
Theorem build_terms :
    forall (norm : bytes -> N -> N) (b : Batch) (f t : bytes),
    In t (o_terms (abs_of_batch norm b) f) <->
    (exists doc : Doc, In doc b /\ Build_Proofs.matching_terms f t doc <> []).
Proof. exact @Build_Proofs.build_terms. Qed.
Print Assumptions build_terms.

Theorem build_terms_sorted :
    forall (norm : bytes -> N -> N) (b : Batch) (f : bytes),
    Sort_Proofs.strict_sorted_bytes (o_terms (abs_of_batch norm b) f).
Proof. exact @Build_Proofs.build_terms_sorted. Qed.
Print Assumptions build_terms_sorted.

(* the per-document roll-up of a repeated field: frequencies summed, locations concatenated in input order *)
Theorem roll_up_lookup :
    forall (fname t : bytes) (insts : list Field),
    find (fun at_ : bytes * (N * list ALoc) => beq (fst at_) t) (roll_up fname insts) =
    match filter (fun tm : Term => beq (t_bytes tm) t) (flat_map' f_terms insts) with
    | [] => None
    | t0 :: l =>
    let ms := t0 :: l in
    Some
    (t, (sumN (map t_freq ms), flat_map' (fun tm : Term => map (resolve_loc fname) (t_locs tm)) ms))
    end.
Proof. exact @Build_Proofs.roll_up_lookup. Qed.
Print Assumptions roll_up_lookup.

Theorem roll_up_keys_sorted :
    forall (fname : bytes) (insts : list Field),
    Sort_Proofs.strict_sorted_bytes (map fst (roll_up fname insts)).
Proof. exact @Build_Proofs.roll_up_keys_sorted. Qed.
Print Assumptions roll_up_keys_sorted.

Theorem build_stored :
    forall (norm : bytes -> N -> N) (b : Batch) (n : nat) (doc : Doc),
    nth_error b n = Some doc ->
    o_stored (abs_of_batch norm b) (N.of_nat n) = abs_stored (field_list (batch_field_names b)) doc.
Proof. exact @Build_Proofs.build_stored. Qed.
Print Assumptions build_stored.

Theorem build_stored_out_of_range :
    forall (norm : bytes -> N -> N) (b : Batch) (n : N),
    lenN b <= n -> o_stored (abs_of_batch norm b) n = [].
Proof. exact @Build_Proofs.build_stored_out_of_range. Qed.
Print Assumptions build_stored_out_of_range.

(* the writer algorithm (chunkedIntCoder: SetChunkSize, Add with the current-chunk test, Close): chunk k of what it writes decompresses to exactly the entries of the postings whose document falls into chunk k, for every zstd satisfying the three laws *)
Theorem coder_chunks :
    forall zc zd : bytes -> bytes,
    (forall b : bytes, zd (zc b) = b) ->
    zc [] = [] ->
    (forall b : list N, b <> [] -> zc b <> []) ->
    forall (cs m : N) (es : list IntCoder_Proofs.entry) (rest : bytes),
    0 < cs ->
    m / cs + 1 < two64 ->
    StronglySorted IntCoder_Proofs.le_doc es ->
    Forall (fun e : N * list N => fst e <= m) es ->
    exists c : coder,
    run_term zc cs m es = Ok c /\
    length (co_chunkLens c) = N.to_nat (m / cs + 1) /\
    (forall k : nat,
    (k < N.to_nat (m / cs + 1))%nat ->
    decoder_chunk zd (modify_lengths_to_end_offsets (co_chunkLens c)) (co_final c ++ rest) k =
    Ok
    (flat_map' (fun e : N * list N => if fst e / cs =? N.of_nat k then put_uvarints (snd e) else [])
    es)).
Proof. exact @IntCoder_Proofs.coder_chunks. Qed.
Print Assumptions coder_chunks.

(* feeding a postings list to the freq/norm and location coders as new.go and merge.go do yields exactly the encoding encode_gen that the iterator theorem is about *)
Theorem writer_encodes_gen :
    forall zc zd : bytes -> bytes,
    (forall b : bytes, zd (zc b) = b) ->
    zc [] = [] ->
    (forall b : list N, b <> [] -> zc b <> []) ->
    forall (cs m : N) (ps : list EPosting),
    0 < cs ->
    m / cs + 1 < two64 ->
    StronglySorted IntCoder_Proofs.le_pdoc ps ->
    Forall (fun p : EPosting => ep_doc p <= m) ps ->
    exists cf cl : coder,
    run_term zc cs m (freq_adds ps) = Ok cf /\
    run_term zc cs m (loc_adds ps) = Ok cl /\
    IntCoder_Proofs.read_back zd cs (map ep_doc ps) cf cl = encode_gen cs (N.to_nat (m / cs + 1)) ps.
Proof. exact @IntCoder_Proofs.writer_encodes_gen. Qed.
Print Assumptions writer_encodes_gen.

(* end to end: what the coders write, read back through the iterator model, is the specification's answer *)
Theorem written_postings_iterate :
    forall zc zd : bytes -> bytes,
    (forall b : bytes, zd (zc b) = b) ->
    zc [] = [] ->
    (forall b : list N, b <> [] -> zc b <> []) ->
    forall (fields : list bytes) (ps : list EPosting) (cs m : N) (except : option (list N))
    (inclFN inclLocs : bool) (old : option It) (ops : list iter_op),
    Iterator_Proofs.wf_postings (length fields) ps ->
    0 < cs ->
    m / cs + 1 < two64 ->
    Forall (fun p : EPosting => ep_doc p <= m) ps ->
    (inclLocs = true -> inclFN = true) ->
    Iterator_Proofs.wf_ops ops ->
    exists cf cl : coder,
    run_term zc cs m (freq_adds ps) = Ok cf /\
    run_term zc cs m (loc_adds ps) = Ok cl /\
    it_run
    (it_init (IntCoder_Proofs.read_back zd cs (map ep_doc ps) cf cl) except inclFN inclLocs fields old)
    ops =
    Ok
    (Iterator_Proofs.spec_out inclFN inclLocs
    (filter (fun p : N * (N * (N * list ALoc)) => Iterator_Proofs.live_opt except (fst p))
    (map (Iterator_Proofs.resolve_posting fields) ps)) ops).
Proof. exact @IntCoder_Proofs.written_postings_iterate. Qed.
Print Assumptions written_postings_iterate.

(* the location coder is empty (termNotEncoded) exactly when no posting has locations *)
Theorem finalSize_zero_iff :
    forall zc zd : bytes -> bytes,
    (forall b : bytes, zd (zc b) = b) ->
    zc [] = [] ->
    (forall b : list N, b <> [] -> zc b <> []) ->
    forall (cs m : N) (es : list IntCoder_Proofs.entry) (c : coder),
    0 < cs ->
    m / cs + 1 < two64 ->
    StronglySorted IntCoder_Proofs.le_doc es ->
    Forall (fun e : N * list N => fst e <= m) es ->
    run_term zc cs m es = Ok c -> coder_finalSize c = 0 <-> Forall (fun e : N * list N => snd e = []) es.
Proof. exact @IntCoder_Proofs.finalSize_zero_iff. Qed.
Print Assumptions finalSize_zero_iff.

(* non-vacuity: repeated field, shared term, a location naming another field *)
Example build_postings_example :
    o_postings (abs_of_batch Build_Proofs.ex_norm Build_Proofs.ex_batch) Build_Proofs.ex_title
    Build_Proofs.ex_cat =
    [(1,
    (5,
    (6,
    [(Build_Proofs.ex_title, (1, (0, 3))); (Build_Proofs.ex_body, (2, (4, 7)));
    (Build_Proofs.ex_title, (5, (10, 13))); (Build_Proofs.ex_title, (7, (20, 23)))])))] /\
    o_postings (abs_of_batch Build_Proofs.ex_norm Build_Proofs.ex_batch) Build_Proofs.ex_title
    Build_Proofs.ex_dog = [(0, (1, (1, [(Build_Proofs.ex_title, (1, (0, 3)))]))); (1, (1, (6, [])))] /\
    o_fields (abs_of_batch Build_Proofs.ex_norm Build_Proofs.ex_batch) =
    [id_name; Build_Proofs.ex_body; Build_Proofs.ex_title] /\
    o_stats (abs_of_batch Build_Proofs.ex_norm Build_Proofs.ex_batch) Build_Proofs.ex_title = (2, (2, 7)).
Proof. exact @Build_Proofs.build_postings_example. Qed.
Print Assumptions build_postings_example.

(* C01 - A built segment returns exactly the postings its documents imply
   Property theorems only: each statement is given in full and closed by `exact`;
   Print Assumptions follows every theorem.  matching_terms f t doc = the input terms of doc in field f with bytes t, in input order; implied_freq / implied_locs / implied_norm are their summed frequency, concatenated resolved locations and the norm of the summed field length. *)

From Coq Require Import List NArith Bool Sorting Permutation.
From Ice Require Import Base Spec Varint Chunk Postings IntCoder Builder.
From IceProofs Require Build_Proofs Sort_Proofs IntCoder_Proofs Builder_Proofs.
Import ListNotations.
Open Scope N_scope.

(* documents are numbered 0..n-1 *)
Theorem build_count :
    forall (norm : bytes -> N -> N) (b : Batch), o_count (abs_of_batch norm b) = lenN b.
Proof. exact @Build_Proofs.build_count. Qed.
Print Assumptions build_count.

(* the field list is _id followed by the remaining field names in sorted order *)
Theorem build_fields :
    forall (norm : bytes -> N -> N) (b : Batch),
    o_fields (abs_of_batch norm b) = field_list (batch_field_names b).
Proof. exact @Build_Proofs.build_fields. Qed.
Print Assumptions build_fields.

(* no field the batch does not imply *)
Theorem build_fields_In :
    forall (norm : bytes -> N -> N) (b : Batch) (f : bytes),
    In f (o_fields (abs_of_batch norm b)) <->
    f = id_name \/ (exists (d : Doc) (fld : Field), In d b /\ In fld d /\ f_name fld = f).
Proof. exact @Build_Proofs.build_fields_In. Qed.
Print Assumptions build_fields_In.

(* for every field and term: exactly the documents containing the term, each with the summed frequency, the norm of the field's total length and the locations in input order with their field names *)
Theorem build_postings :
    forall (norm : bytes -> N -> N) (b : Batch) (f t : bytes),
    o_postings (abs_of_batch norm b) f t =
    flat_map'
    (fun '(n, doc) =>
    match Build_Proofs.matching_terms f t doc with
    | [] => []
    | _ :: _ =>
    [(n,
    (Build_Proofs.implied_freq f t doc,
    (Build_Proofs.implied_norm norm f doc, Build_Proofs.implied_locs f t doc)))]
    end) (number_from 0 b).
Proof. exact @Build_Proofs.build_postings. Qed.
Print Assumptions build_postings.

(* in ascending document order *)
Theorem build_postings_ascending :
    forall (norm : bytes -> N -> N) (b : Batch) (f t : bytes),
    StronglySorted (fun p q : APosting => fst p < fst q) (o_postings (abs_of_batch norm b) f t).
Proof. exact @Build_Proofs.build_postings_ascending. Qed.
Print Assumptions build_postings_ascending.

(* no term the batch does not imply *)
Theorem build_terms :
    forall (norm : bytes -> N -> N) (b : Batch) (f t : bytes),
    In t (o_terms (abs_of_batch norm b) f) <->
    (exists doc : Doc, In doc b /\ Build_Proofs.matching_terms f t doc <> []).
Proof. exact @Build_Proofs.build_terms. Qed.
Print Assumptions build_terms.

Theorem build_terms_sorted :
    forall (norm : bytes -> N -> N) (b : Batch) (f : bytes),
    Sort_Proofs.strict_sorted_bytes (o_terms (abs_of_batch norm b) f).
Proof. exact @Build_Proofs.build_terms_sorted. Qed.
Print Assumptions build_terms_sorted.

(* the per-document roll-up of a repeated field: frequencies summed, locations concatenated in input order *)
Theorem roll_up_lookup :
    forall (fname t : bytes) (insts : list Field),
    find (fun at_ : bytes * (N * list ALoc) => beq (fst at_) t) (roll_up fname insts) =
    match filter (fun tm : Term => beq (t_bytes tm) t) (flat_map' f_terms insts) with
    | [] => None
    | t0 :: l =>
    let ms := t0 :: l in
    Some
    (t, (sumN (map t_freq ms), flat_map' (fun tm : Term => map (resolve_loc fname) (t_locs tm)) ms))
    end.
Proof. exact @Build_Proofs.roll_up_lookup. Qed.
Print Assumptions roll_up_lookup.

Theorem roll_up_keys_sorted :
    forall (fname : bytes) (insts : list Field),
    Sort_Proofs.strict_sorted_bytes (map fst (roll_up fname insts)).
Proof. exact @Build_Proofs.roll_up_keys_sorted. Qed.
Print Assumptions roll_up_keys_sorted.

Theorem build_stored :
    forall (norm : bytes -> N -> N) (b : Batch) (n : nat) (doc : Doc),
    nth_error b n = Some doc ->
    o_stored (abs_of_batch norm b) (N.of_nat n) = abs_stored (field_list (batch_field_names b)) doc.
Proof. exact @Build_Proofs.build_stored. Qed.
Print Assumptions build_stored.

Theorem build_stored_out_of_range :
    forall (norm : bytes -> N -> N) (b : Batch) (n : N),
    lenN b <= n -> o_stored (abs_of_batch norm b) n = [].
Proof. exact @Build_Proofs.build_stored_out_of_range. Qed.
Print Assumptions build_stored_out_of_range.

(* the writer algorithm (chunkedIntCoder: SetChunkSize, Add with the current-chunk test, Close): chunk k of what it writes decompresses to exactly the entries of the postings whose document falls into chunk k, for every zstd satisfying the three laws *)
Theorem coder_chunks :
    forall zc zd : bytes -> bytes,
    (forall b : bytes, zd (zc b) = b) ->
    zc [] = [] ->
    (forall b : list N, b <> [] -> zc b <> []) ->
    forall (cs m : N) (es : list IntCoder_Proofs.entry) (rest : bytes),
    0 < cs ->
    m / cs + 1 < two64 ->
    StronglySorted IntCoder_Proofs.le_doc es ->
    Forall (fun e : N * list N => fst e <= m) es ->
    exists c : coder,
    run_term zc cs m es = Ok c /\
    length (co_chunkLens c) = N.to_nat (m / cs + 1) /\
    (forall k : nat,
    (k < N.to_nat (m / cs + 1))%nat ->
    decoder_chunk zd (modify_lengths_to_end_offsets (co_chunkLens c)) (co_final c ++ rest) k =
    Ok
    (flat_map' (fun e : N * list N => if fst e / cs =? N.of_nat k then put_uvarints (snd e) else [])
    es)).
Proof. exact @IntCoder_Proofs.coder_chunks. Qed.
Print Assumptions coder_chunks.

(* feeding a postings list to the freq/norm and location coders as new.go and merge.go do yields exactly the encoding encode_gen that the iterator theorem is about *)
Theorem writer_encodes_gen :
    forall zc zd : bytes -> bytes,
    (forall b : bytes, zd (zc b) = b) ->
    zc [] = [] ->
    (forall b : list N, b <> [] -> zc b <> []) ->
    forall (cs m : N) (ps : list EPosting),
    0 < cs ->
    m / cs + 1 < two64 ->
    StronglySorted IntCoder_Proofs.le_pdoc ps ->
    Forall (fun p : EPosting => ep_doc p <= m) ps ->
    exists cf cl : coder,
    run_term zc cs m (freq_adds ps) = Ok cf /\
    run_term zc cs m (loc_adds ps) = Ok cl /\
    IntCoder_Proofs.read_back zd cs (map ep_doc ps) cf cl = encode_gen cs (N.to_nat (m / cs + 1)) ps.
Proof. exact @IntCoder_Proofs.writer_encodes_gen. Qed.
Print Assumptions writer_encodes_gen.

(* end to end: what the coders write, read back through the iterator model, is the specification's answer *)
Theorem written_postings_iterate :
    forall zc zd : bytes -> bytes,
    (forall b : bytes, zd (zc b) = b) ->
    zc [] = [] ->
    (forall b : list N, b <> [] -> zc b <> []) ->
    forall (fields : list bytes) (ps : list EPosting) (cs m : N) (except : option (list N))
    (inclFN inclLocs : bool) (old : option It) (ops : list iter_op),
    Iterator_Proofs.wf_postings (length fields) ps ->
    0 < cs ->
    m / cs + 1 < two64 ->
    Forall (fun p : EPosting => ep_doc p <= m) ps ->
    (inclLocs = true -> inclFN = true) ->
    Iterator_Proofs.wf_ops ops ->
    exists cf cl : coder,
    run_term zc cs m (freq_adds ps) = Ok cf /\
    run_term zc cs m (loc_adds ps) = Ok cl /\
    it_run
    (it_init (IntCoder_Proofs.read_back zd cs (map ep_doc ps) cf cl) except inclFN inclLocs fields old)
    ops =
    Ok
    (Iterator_Proofs.spec_out inclFN inclLocs
    (filter (fun p : N * (N * (N * list ALoc)) => Iterator_Proofs.live_opt except (fst p))
    (map (Iterator_Proofs.resolve_posting fields) ps)) ops).
Proof. exact @IntCoder_Proofs.written_postings_iterate. Qed.
Print Assumptions written_postings_iterate.

(* the location coder is empty (termNotEncoded) exactly when no posting has locations *)
Theorem finalSize_zero_iff :
    forall zc zd : bytes -> bytes,
    (forall b : bytes, zd (zc b) = b) ->
    zc [] = [] ->
    (forall b : list N, b <> [] -> zc b <> []) ->
    forall (cs m : N) (es : list IntCoder_Proofs.entry) (c : coder),
    0 < cs ->
    m / cs + 1 < two64 ->
    StronglySorted IntCoder_Proofs.le_doc es ->
    Forall (fun e : N * list N => fst e <= m) es ->
    run_term zc cs m es = Ok c -> coder_finalSize c = 0 <-> Forall (fun e : N * list N => snd e = []) es.
Proof. exact @IntCoder_Proofs.finalSize_zero_iff. Qed.
Print Assumptions finalSize_zero_iff.

(* R-build: the statement-by-statement model of the builder's in-memory phase (field numbering, prepareDicts with its counting pass and windows into two flat backing arrays, processDocument with ANY map iteration order, the walk of writeDictsTermField) produces for every field and term exactly the postings the specification implies, in the specification's field and term order *)
Theorem R_build_postings :
    forall (norm : bytes -> N -> N) (perm : N -> nat -> list (bytes * TokFreq) -> list (bytes * TokFreq)),
    (forall (n : N) (q : nat) (l : list (bytes * TokFreq)), Permutation (perm n q l) l) ->
    forall b : Batch,
    valid_batch b = true ->
    build_postings_model norm perm b =
    map
    (fun f : bytes =>
    (f,
    map
    (fun t : bytes =>
    (t, map (to_eposting (define_fields b)) (o_postings (abs_of_batch norm b) f t)))
    (o_terms (abs_of_batch norm b) f))) (define_fields b).
Proof. exact @Builder_Proofs.R_build_postings. Qed.
Print Assumptions R_build_postings.

(* the counting pass bounds the appending pass: no append ever leaves its own window of the shared backing arrays (for every batch, valid or not) *)
Theorem windows_disjoint :
    forall (norm : bytes -> N -> N) (perm : N -> nat -> list (bytes * TokFreq) -> list (bytes * TokFreq)),
    (forall (n : N) (q : nat) (l : list (bytes * TokFreq)), Permutation (perm n q l) l) ->
    forall b : Batch,
    let T :=
    Builder_Proofs.run_trace norm perm
    {|
    i_flds := i_flds (initial b);
    i_postings := repeat [] (p_pidNext (prepared b));
    i_fn := [];
    i_locs := []
    |} b in
    let aF := arr_make (p_totTFs (prepared b)) (p_numTerms (prepared b)) in
    let aL := arr_make (p_totLocs (prepared b)) (p_numLocs (prepared b)) in
    i_fn (convert_inmem norm perm b) = Builder_Proofs.arr_run aF (i_fn T) /\
    i_locs (convert_inmem norm perm b) = Builder_Proofs.arr_run aL (i_locs T) /\
    (forall tr1 tr2 : list (nat * interimFreqNorm),
    i_fn T = tr1 ++ tr2 ->
    Builder_Proofs.Sim (p_numTerms (prepared b)) (Builder_Proofs.arr_run aF tr1)
    (Builder_Proofs.log_run (repeat [] (length (p_numTerms (prepared b)))) tr1)) /\
    (forall tr1 tr2 : list (nat * ELoc),
    i_locs T = tr1 ++ tr2 ->
    Builder_Proofs.Sim (p_numLocs (prepared b)) (Builder_Proofs.arr_run aL tr1)
    (Builder_Proofs.log_run (repeat [] (length (p_numLocs (prepared b)))) tr1)).
Proof. exact @Builder_Proofs.windows_disjoint. Qed.
Print Assumptions windows_disjoint.

Theorem no_detach :
    forall (norm : bytes -> N -> N) (perm : N -> nat -> list (bytes * TokFreq) -> list (bytes * TokFreq))
    (b : Batch),
    (forall (n : N) (q : nat) (l : list (bytes * TokFreq)), Permutation (perm n q l) l) ->
    let T :=
    Builder_Proofs.run_trace norm perm
    {|
    i_flds := i_flds (initial b);
    i_postings := repeat [] (p_pidNext (prepared b));
    i_fn := [];
    i_locs := []
    |} b in
    let nT := p_numTerms (prepared b) in
    let nL := p_numLocs (prepared b) in
    (forall (tr1 tr2 : list (nat * interimFreqNorm)) (pid : nat),
    i_fn T = tr1 ++ tr2 ->
    (pid < length nT)%nat ->
    exists len : nat,
    nth pid (slices (Builder_Proofs.arr_run (arr_make (p_totTFs (prepared b)) nT) tr1)) (Detached []) =
    Win (Builder_Proofs.off_of nT pid) len /\
    (len <= nth pid nT 0)%nat /\
    (Builder_Proofs.off_of nT pid + nth pid nT 0 <=
    length (backing (Builder_Proofs.arr_run (arr_make (p_totTFs (prepared b)) nT) tr1)))%nat) /\
    (forall (tr1 tr2 : list (nat * ELoc)) (pid : nat),
    i_locs T = tr1 ++ tr2 ->
    (pid < length nL)%nat ->
    exists len : nat,
    nth pid (slices (Builder_Proofs.arr_run (arr_make (p_totLocs (prepared b)) nL) tr1)) (Detached []) =
    Win (Builder_Proofs.off_of nL pid) len /\
    (len <= nth pid nL 0)%nat /\
    (Builder_Proofs.off_of nL pid + nth pid nL 0 <=
    length (backing (Builder_Proofs.arr_run (arr_make (p_totLocs (prepared b)) nL) tr1)))%nat).
Proof. exact @Builder_Proofs.no_detach. Qed.
Print Assumptions no_detach.

(* getOrDefineField + sort.Strings(FieldsInv[1:]) = _id followed by the sorted remaining names *)
Theorem define_fields_spec :
    forall b : Batch, define_fields b = field_list (batch_field_names b).
Proof. exact @Builder_Proofs.define_fields_spec. Qed.
Print Assumptions define_fields_spec.

Example build_model_example :
    valid_batch Builder_Proofs.exb_batch = true /\
    build_postings_model Builder_Proofs.exb_norm Builder_Proofs.perm_id Builder_Proofs.exb_batch =
    Builder_Proofs.exb_result /\
    build_postings_model Builder_Proofs.exb_norm Builder_Proofs.perm_rev Builder_Proofs.exb_batch =
    Builder_Proofs.exb_result /\
    map
    (fun f : bytes =>
    (f,
    map
    (fun t : bytes =>
    (t,
    map (to_eposting (define_fields Builder_Proofs.exb_batch))
    (o_postings (abs_of_batch Builder_Proofs.exb_norm Builder_Proofs.exb_batch) f t)))
    (o_terms (abs_of_batch Builder_Proofs.exb_norm Builder_Proofs.exb_batch) f)))
    (define_fields Builder_Proofs.exb_batch) = Builder_Proofs.exb_result /\
    map (fun o : option interimFreqNorm => match o with
    | Some _ => true
    | None => false
    end)
    (backing
    (i_fn (convert_inmem Builder_Proofs.exb_norm Builder_Proofs.perm_rev Builder_Proofs.exb_batch))) =
    [true; true; true; true; true; false; true; true; true; true; true] /\
    slices (i_fn (convert_inmem Builder_Proofs.exb_norm Builder_Proofs.perm_rev Builder_Proofs.exb_batch)) =
    [Win 0 1; Win 1 2; Win 3 2; Win 6 1; Win 7 1; Win 8 1; Win 9 1; Win 10 1].
Proof. exact @Builder_Proofs.build_model_example. Qed.
Print Assumptions build_model_example.

(* non-vacuity: repeated field, shared term, a location naming another field *)
Example build_postings_example :
    o_postings (abs_of_batch Build_Proofs.ex_norm Build_Proofs.ex_batch) Build_Proofs.ex_title
    Build_Proofs.ex_cat =
    [(1,
    (5,
    (6,
    [(Build_Proofs.ex_title, (1, (0, 3))); (Build_Proofs.ex_body, (2, (4, 7)));
    (Build_Proofs.ex_title, (5, (10, 13))); (Build_Proofs.ex_title, (7, (20, 23)))])))] /\
    o_postings (abs_of_batch Build_Proofs.ex_norm Build_Proofs.ex_batch) Build_Proofs.ex_title
    Build_Proofs.ex_dog = [(0, (1, (1, [(Build_Proofs.ex_title, (1, (0, 3)))]))); (1, (1, (6, [])))] /\
    o_fields (abs_of_batch Build_Proofs.ex_norm Build_Proofs.ex_batch) =
    [id_name; Build_Proofs.ex_body; Build_Proofs.ex_title] /\
    o_stats (abs_of_batch Build_Proofs.ex_norm Build_Proofs.ex_batch) Build_Proofs.ex_title = (2, (2, 7)).
Proof. exact @Build_Proofs.build_postings_example. Qed.
Print Assumptions build_postings_example.

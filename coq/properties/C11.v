(* C11 - Written files end in a footer whose CRC-32 covers every preceding byte
   Property theorems only: each statement is given in full and closed by `exact`;
   Print Assumptions follows every theorem.   *)

From Coq Require Import List NArith Bool Sorting Permutation.
From Ice Require Import Base Varint Crc32 Footer.
From IceProofs Require Footer_Proofs Varint_Proofs.
Import ListNotations.
Open Scope N_scope.

(* the running CRC of the countHashWriter is compositional *)
Theorem crc_update_app :
    forall (c : N) (a b : bytes), crc_update c (a ++ b) = crc_update (crc_update c a) b.
Proof. exact Footer_Proofs.crc_update_app. Qed.
Print Assumptions crc_update_app.

Theorem crc32_app :
    forall a b : bytes, crc32 (a ++ b) = crc_update (crc32 a) b.
Proof. exact Footer_Proofs.crc32_app. Qed.
Print Assumptions crc32_app.

Theorem crc32_bound :
    forall p : bytes, Forall Varint_Proofs.is_byte p -> crc32 p < two32.
Proof. exact Footer_Proofs.crc32_bound. Qed.
Print Assumptions crc32_bound.

(* Segment.WriteTo: the last four bytes are the CRC-32 of all preceding bytes *)
Theorem writeto_crc :
    forall (data : bytes) (f : footer),
    Forall Varint_Proofs.is_byte data -> crc_ok (segment_writeto data f) = true.
Proof. exact Footer_Proofs.writeto_crc. Qed.
Print Assumptions writeto_crc.

(* Merger.WriteTo likewise *)
Theorem merger_crc :
    forall (data : bytes) (nd st fl dv cm : N),
    Forall Varint_Proofs.is_byte data -> crc_ok (merger_writeto data nd st fl dv cm) = true.
Proof. exact Footer_Proofs.merger_crc. Qed.
Print Assumptions merger_crc.

(* byte count = data + 44-byte footer *)
Theorem writeto_length :
    forall (data : bytes) (f : footer), length (segment_writeto data f) = (length data + 44)%nat.
Proof. exact Footer_Proofs.writeto_length. Qed.
Print Assumptions writeto_length.

Theorem merger_writeto_length :
    forall (data : bytes) (nd st fl dv cm : N),
    length (merger_writeto data nd st fl dv cm) = (length data + 44)%nat.
Proof. exact Footer_Proofs.merger_writeto_length. Qed.
Print Assumptions merger_writeto_length.

(* the footer's document count, offsets, chunk mode and version are what the loaded segment reports *)
Theorem writeto_footer_fields :
    forall (data : bytes) (f : footer),
    Footer_Proofs.valid_footer f ->
    Forall Varint_Proofs.is_byte data ->
    exists ft : footer,
    parse_footer (segment_writeto data f) = Ok ft /\
    ft_numDocs ft = ft_numDocs f /\
    ft_stored ft = ft_stored f /\
    ft_fields ft = ft_fields f /\
    ft_dv ft = ft_dv f /\
    ft_chunkMode ft = ft_chunkMode f /\
    ft_version ft = Version /\ ft_crc ft = crc32 (drop_last 4 (segment_writeto data f)).
Proof. exact Footer_Proofs.writeto_footer_fields. Qed.
Print Assumptions writeto_footer_fields.

Theorem parse_persist :
    forall (data : bytes) (f : footer),
    Footer_Proofs.valid_footer f ->
    parse_footer (data ++ persist_footer f) =
    Ok
    {|
    ft_numDocs := ft_numDocs f;
    ft_stored := ft_stored f;
    ft_fields := ft_fields f;
    ft_dv := ft_dv f;
    ft_chunkMode := ft_chunkMode f;
    ft_version := Version;
    ft_crc := crc_update (ft_crc f) (footer_body f)
    |}.
Proof. exact Footer_Proofs.parse_persist. Qed.
Print Assumptions parse_persist.

Theorem parse_short :
    forall file : bytes, (length file < 44)%nat -> parse_footer file = Err.
Proof. exact Footer_Proofs.parse_short. Qed.
Print Assumptions parse_short.

(* persisting a loaded segment again reproduces the file byte for byte *)
Theorem repersist_identical :
    forall (data : bytes) (f : footer),
    Footer_Proofs.valid_footer f ->
    Forall Varint_Proofs.is_byte data ->
    forall ft : footer,
    parse_footer (segment_writeto data f) = Ok ft ->
    drop_last 44 (segment_writeto data f) = data /\
    segment_writeto (drop_last 44 (segment_writeto data f)) ft = segment_writeto data f.
Proof. exact Footer_Proofs.repersist_identical. Qed.
Print Assumptions repersist_identical.

(* regression of the method: the pre-fix WriteTo (footer CRC seeded with the loaded footer's CRC) is refuted by a witness *)
Theorem repersist_prefix_refuted :
    exists (data : bytes) (f ft : footer),
    parse_footer (Footer_Proofs.segment_writeto_prefix data f) = Ok ft /\
    ft_crc f = crc32 data /\
    crc_ok (Footer_Proofs.segment_writeto_prefix data f) = true /\
    crc_ok (Footer_Proofs.segment_writeto_prefix data ft) = false.
Proof. exact Footer_Proofs.repersist_prefix_refuted. Qed.
Print Assumptions repersist_prefix_refuted.

Example crc32_check_value :
    crc32 [49; 50; 51; 52; 53; 54; 55; 56; 57] = 3421780262.
Proof. exact Footer_Proofs.crc32_check_value. Qed.
Print Assumptions crc32_check_value.

(* C04 - Every segment ice writes can be loaded back and reads identically
   Property theorems only: each statement is given in full and closed by `exact`;
   Print Assumptions follows every theorem.  Container level: the footer written by WriteTo parses back to the same fields for every data section; the per-term, stored and doc-value layouts are covered by C05/C06/C07; the reload of the model is the identity. *)

From Coq Require Import List NArith Bool Sorting Permutation.
From Ice Require Import Base Spec Varint Crc32 Footer Stored Run.
From IceProofs Require Footer_Proofs Immut_Proofs Stored_Proofs.
Import ListNotations.
Open Scope N_scope.

(* parseFooter (data ++ persistFooter f) = f *)
Theorem parse_persist :
    forall (data : bytes) (f : footer),
    Footer_Proofs.valid_footer f ->
    parse_footer (data ++ persist_footer f) =
    Ok
    {|
    ft_numDocs := ft_numDocs f;
    ft_stored := ft_stored f;
    ft_fields := ft_fields f;
    ft_dv := ft_dv f;
    ft_chunkMode := ft_chunkMode f;
    ft_version := Version;
    ft_crc := crc_update (ft_crc f) (footer_body f)
    |}.
Proof. exact Footer_Proofs.parse_persist. Qed.
Print Assumptions parse_persist.

Theorem writeto_footer_fields :
    forall (data : bytes) (f : footer),
    Footer_Proofs.valid_footer f ->
    Forall Varint_Proofs.is_byte data ->
    exists ft : footer,
    parse_footer (segment_writeto data f) = Ok ft /\
    ft_numDocs ft = ft_numDocs f /\
    ft_stored ft = ft_stored f /\
    ft_fields ft = ft_fields f /\
    ft_dv ft = ft_dv f /\
    ft_chunkMode ft = ft_chunkMode f /\
    ft_version ft = Version /\ ft_crc ft = crc32 (drop_last 4 (segment_writeto data f)).
Proof. exact Footer_Proofs.writeto_footer_fields. Qed.
Print Assumptions writeto_footer_fields.

(* WriteTo returns exactly the number of bytes it wrote: data + 44 *)
Theorem writeto_length :
    forall (data : bytes) (f : footer), length (segment_writeto data f) = (length data + 44)%nat.
Proof. exact Footer_Proofs.writeto_length. Qed.
Print Assumptions writeto_length.

Theorem merger_writeto_length :
    forall (data : bytes) (nd st fl dv cm : N),
    length (merger_writeto data nd st fl dv cm) = (length data + 44)%nat.
Proof. exact Footer_Proofs.merger_writeto_length. Qed.
Print Assumptions merger_writeto_length.

Theorem repersist_identical :
    forall (data : bytes) (f : footer),
    Footer_Proofs.valid_footer f ->
    Forall Varint_Proofs.is_byte data ->
    forall ft : footer,
    parse_footer (segment_writeto data f) = Ok ft ->
    drop_last 44 (segment_writeto data f) = data /\
    segment_writeto (drop_last 44 (segment_writeto data f)) ft = segment_writeto data f.
Proof. exact Footer_Proofs.repersist_identical. Qed.
Print Assumptions repersist_identical.

Theorem parse_short :
    forall file : bytes, (length file < 44)%nat -> parse_footer file = Err.
Proof. exact Footer_Proofs.parse_short. Qed.
Print Assumptions parse_short.

(* stored blocks written by the coder read back *)
Theorem stored_roundtrip :
    forall (fields : list bytes) (docs : list SVals) (i : nat) (vals : SVals) (stop : option N),
    Forall (Stored_Proofs.wf_svals (length fields)) docs ->
    nth_error docs i = Some vals ->
    visit_stored (block_of docs) (nth i (block_offsets 0 docs) 0) fields stop =
    Ok (Stored_Proofs.take_stop stop (Stored_Proofs.resolve_vals fields vals)).
Proof. exact Stored_Proofs.block_visit. Qed.
Print Assumptions stored_roundtrip.

Theorem reload_is_identity_on_the_model :
    forall (st : list Slot) (o : op),
    match o with
    | OBuild _ _ | OMerge _ _ | OReload _ _ => False
    | _ => True
    end -> fst (step st o) = st.
Proof. exact Immut_Proofs.step_reads_preserve. Qed.
Print Assumptions reload_is_identity_on_the_model.

(* C04 - Every segment ice writes can be loaded back and reads identically
   Property theorems only: each statement is given in full and closed by `exact`;
   Print Assumptions follows every theorem.  Container level: the footer written by WriteTo parses back to the same fields for every data section; the per-term, stored and doc-value layouts are covered by C05/C06/C07; the reload of the model is the identity. *)

From Coq Require Import List NArith Bool Sorting Permutation.
From Ice Require Import Base Spec Varint Chunk Crc32 Footer Stored Run Container IntCoder Postings Reuse Dict.
From IceProofs Require Footer_Proofs Immut_Proofs Stored_Proofs Container_Proofs IntCoder_Proofs Reuse_Proofs.
Import ListNotations.
Open Scope N_scope.

(* parseFooter (data ++ persistFooter f) = f *)
Theorem parse_persist :
    forall (data : bytes) (f : footer),
    Footer_Proofs.valid_footer f ->
    parse_footer (data ++ persist_footer f) =
    Ok
    {|
    ft_numDocs := ft_numDocs f;
    ft_stored := ft_stored f;
    ft_fields := ft_fields f;
    ft_dv := ft_dv f;
    ft_chunkMode := ft_chunkMode f;
    ft_version := Version;
    ft_crc := crc_update (ft_crc f) (footer_body f)
    |}.
Proof. exact @Footer_Proofs.parse_persist. Qed.
Print Assumptions parse_persist.

Theorem writeto_footer_fields :
    forall (data : bytes) (f : footer),
    Footer_Proofs.valid_footer f ->
    Forall Varint_Proofs.is_byte data ->
    exists ft : footer,
    parse_footer (segment_writeto data f) = Ok ft /\
    ft_numDocs ft = ft_numDocs f /\
    ft_stored ft = ft_stored f /\
    ft_fields ft = ft_fields f /\
    ft_dv ft = ft_dv f /\
    ft_chunkMode ft = ft_chunkMode f /\
    ft_version ft = Version /\ ft_crc ft = crc32 (drop_last 4 (segment_writeto data f)).
Proof. exact @Footer_Proofs.writeto_footer_fields. Qed.
Print Assumptions writeto_footer_fields.

(* WriteTo returns exactly the number of bytes it wrote: data + 44 *)
Theorem writeto_length :
    forall (data : bytes) (f : footer), length (segment_writeto data f) = (length data + 44)%nat.
Proof. exact @Footer_Proofs.writeto_length. Qed.
Print Assumptions writeto_length.

Theorem merger_writeto_length :
    forall (data : bytes) (nd st fl dv cm : N),
    length (merger_writeto data nd st fl dv cm) = (length data + 44)%nat.
Proof. exact @Footer_Proofs.merger_writeto_length. Qed.
Print Assumptions merger_writeto_length.

Theorem repersist_identical :
    forall (data : bytes) (f : footer),
    Footer_Proofs.valid_footer f ->
    Forall Varint_Proofs.is_byte data ->
    forall ft : footer,
    parse_footer (segment_writeto data f) = Ok ft ->
    drop_last 44 (segment_writeto data f) = data /\
    segment_writeto (drop_last 44 (segment_writeto data f)) ft = segment_writeto data f.
Proof. exact @Footer_Proofs.repersist_identical. Qed.
Print Assumptions repersist_identical.

Theorem parse_short :
    forall file : bytes, (length file < 44)%nat -> parse_footer file = Err.
Proof. exact @Footer_Proofs.parse_short. Qed.
Print Assumptions parse_short.

(* stored blocks written by the coder read back *)
Theorem stored_roundtrip :
    forall (fields : list bytes) (docs : list SVals) (i : nat) (vals : SVals) (stop : option N),
    Forall (Stored_Proofs.wf_svals (length fields)) docs ->
    nth_error docs i = Some vals ->
    visit_stored (block_of docs) (nth i (block_offsets 0 docs) 0) fields stop =
    Ok (Stored_Proofs.take_stop stop (Stored_Proofs.resolve_vals fields vals)).
Proof. exact @Stored_Proofs.block_visit. Qed.
Print Assumptions stored_roundtrip.

Theorem reload_is_identity_on_the_model :
    forall (st : list Slot) (o : op),
    match o with
    | OBuild _ _ | OMerge _ _ | OReload _ _ => False
    | _ => True
    end -> fst (step st o) = st.
Proof. exact @Immut_Proofs.step_reads_preserve. Qed.
Print Assumptions reload_is_identity_on_the_model.

(* loadFields (persistFields fields) = fields: names, dictionary offsets and statistics *)
Theorem fields_roundtrip :
    forall (pre : bytes) (base : N) (fields : list field_rec),
    let data := pre ++ fst (persist_fields base fields) in
    base = lenN pre ->
    lenN data < two63 ->
    Forall Container_Proofs.wf_field fields ->
    lenN fields <= 65536 -> load_fields data (snd (persist_fields base fields)) = Ok fields.
Proof. exact @Container_Proofs.fields_roundtrip. Qed.
Print Assumptions fields_roundtrip.

(* loadStoredFieldChunk reads back the block offsets provided the fixed 10-byte look-ahead stays inside the data section ... *)
Theorem stored_trailer_roundtrip :
    forall (pre rest : bytes) (offsets : list N),
    let data := pre ++ stored_trailer offsets ++ rest in
    let storedIndexOffset := lenN (pre ++ stored_trailer offsets) in
    lenN data < two63 ->
    Container_Proofs.stored_wf offsets ->
    Container_Proofs.lookahead_ok offsets (8 + lenN rest) ->
    load_stored_chunk_offsets data storedIndexOffset = Ok offsets.
Proof. exact @Container_Proofs.stored_trailer_roundtrip. Qed.
Print Assumptions stored_trailer_roundtrip.

(* ... and fails otherwise (the condition is exact) *)
Theorem stored_trailer_lookahead_needed :
    forall (pre rest : bytes) (offsets : list N),
    let data := pre ++ stored_trailer offsets ++ rest in
    let storedIndexOffset := lenN (pre ++ stored_trailer offsets) in
    lenN data < two63 ->
    Container_Proofs.stored_wf offsets ->
    ~ Container_Proofs.lookahead_ok offsets (8 + lenN rest) ->
    load_stored_chunk_offsets data storedIndexOffset = Err.
Proof. exact @Container_Proofs.stored_trailer_lookahead_needed. Qed.
Print Assumptions stored_trailer_lookahead_needed.

Theorem doc_stored_offset_roundtrip :
    forall (pre post : bytes) (docOffsets : list N) (i : nat) (v : N),
    let data := pre ++ stored_index docOffsets ++ post in
    lenN data < two63 ->
    nth_error docOffsets i = Some v ->
    v < two64 -> doc_stored_offset data (lenN pre) (N.of_nat i) = Ok (lenN pre + 8 * N.of_nat i, v).
Proof. exact @Container_Proofs.doc_stored_offset_roundtrip. Qed.
Print Assumptions doc_stored_offset_roundtrip.

Theorem dvlocs_roundtrip :
    forall (pre post : bytes) (locs : list (N * N)) (numDocs : N),
    let data := pre ++ write_dv_locs locs ++ post in
    lenN data < two63 ->
    Forall Container_Proofs.wf_loc locs ->
    numDocs <> 0 ->
    Container_Proofs.lookahead_ok (Container_Proofs.flat_locs locs) (lenN post) ->
    load_dv_locs data (lenN pre) numDocs (length locs) = Ok locs.
Proof. exact @Container_Proofs.dvlocs_roundtrip. Qed.
Print Assumptions dvlocs_roundtrip.

Theorem dv_trailer_roundtrip :
    forall (pre chunkData post : bytes) (chunkOffsets : list N),
    let data := pre ++ chunkData ++ dv_trailer chunkOffsets ++ post in
    let fieldDvLocStart := lenN pre in
    let fieldDvLocEnd := lenN (pre ++ chunkData ++ dv_trailer chunkOffsets) in
    lenN data < two63 ->
    Forall (fun x : N => x < two64) chunkOffsets ->
    chunkData <> [] \/ chunkOffsets <> [] ->
    load_field_dv_reader data fieldDvLocStart fieldDvLocEnd = Ok (Some (fieldDvLocStart, chunkOffsets)).
Proof. exact @Container_Proofs.dv_trailer_roundtrip. Qed.
Print Assumptions dv_trailer_roundtrip.

Theorem dv_readers_roundtrip :
    forall (pre post : bytes) (locs : list (N * N)) (numDocs : N) (rd : N -> N -> option (N * list N)),
    let data := pre ++ write_dv_locs locs ++ post in
    lenN data < two63 ->
    Forall Container_Proofs.wf_loc locs ->
    numDocs <> 0 ->
    Container_Proofs.lookahead_ok (Container_Proofs.flat_locs locs) (lenN post) ->
    (forall p : N * N, In p locs -> load_field_dv_reader data (fst p) (snd p) = Ok (rd (fst p) (snd p))) ->
    load_dv_readers data (lenN pre) numDocs (length locs) =
    Ok (map (fun p : N * N => rd (fst p) (snd p)) locs).
Proof. exact @Container_Proofs.dv_readers_roundtrip. Qed.
Print Assumptions dv_readers_roundtrip.

(* in the layout both writers produce (stored section, dictionaries, doc-value locations, fields section last, _id always present) every look-ahead of every loader stays inside the data section: memory- and file-backed data load alike *)
Theorem segment_data_loads :
    forall (blocks : list bytes) (docOffsets : list N) (dicts : bytes) (locs : list (N * N))
    (fields : list field_rec) (numDocs : N),
    let data := fst (segment_data blocks docOffsets dicts locs fields) in
    let
    '(storedIndexOffset, fieldsIndexOffset, docValueOffset) :=
    snd (segment_data blocks docOffsets dicts locs fields) in
    lenN data < two63 ->
    Container_Proofs.stored_wf (0 :: coder_offsets 0 blocks) ->
    Forall (fun x : N => x < two64) docOffsets ->
    Forall Container_Proofs.wf_loc locs ->
    Forall Container_Proofs.wf_field fields ->
    lenN fields <= 65536 ->
    fields <> [] ->
    numDocs <> 0 ->
    load_fields data fieldsIndexOffset = Ok fields /\
    load_stored_chunk_offsets data storedIndexOffset = Ok (0 :: coder_offsets 0 blocks) /\
    (forall (i : nat) (v : N),
    nth_error docOffsets i = Some v ->
    doc_stored_offset data storedIndexOffset (N.of_nat i) = Ok (storedIndexOffset + 8 * N.of_nat i, v)) /\
    load_dv_locs data docValueOffset numDocs (length locs) = Ok locs.
Proof. exact @Container_Proofs.segment_data_loads. Qed.
Print Assumptions segment_data_loads.

(* a term's chunk header and chunks written by chunkedIntCoder.Write are read back by newChunkedIntDecoder/loadChunk *)
Theorem term_roundtrip :
    forall zc zd : bytes -> bytes,
    (forall b : bytes, zd (zc b) = b) ->
    zc [] = [] ->
    (forall b : list N, b <> [] -> zc b <> []) ->
    forall (cs m : N) (es : list IntCoder_Proofs.entry) (rest : bytes),
    0 < cs ->
    m / cs + 1 < two64 ->
    StronglySorted IntCoder_Proofs.le_doc es ->
    Forall (fun e : N * list N => fst e <= m) es ->
    exists c : coder,
    run_term zc cs m es = Ok c /\
    (lenN (co_final c) < two64 ->
    exists (offs : list N) (data : bytes),
    decoder_open (coder_write c ++ rest) = Some (offs, data) /\
    length offs = N.to_nat (m / cs + 1) /\
    (forall k : nat,
    (k < N.to_nat (m / cs + 1))%nat ->
    decoder_chunk zd offs data k = Ok (entries_stream cs (N.of_nat k) es))).
Proof. exact @IntCoder_Proofs.term_roundtrip. Qed.
Print Assumptions term_roundtrip.

(* the model readers on real bytes recorded from /repo *)
Example ex_go_two_read :
    load_fields Container_Proofs.go_two 545 = Ok Container_Proofs.go_two_fields /\
    load_stored_chunk_offsets Container_Proofs.go_two 49 = Ok [0; 39] /\
    doc_stored_offset Container_Proofs.go_two 49 0 = Ok (49, 0) /\
    doc_stored_offset Container_Proofs.go_two 49 1 = Ok (57, 20) /\
    load_dv_locs Container_Proofs.go_two 490 2 3 = Ok Container_Proofs.go_two_locs /\
    load_dv_readers Container_Proofs.go_two 490 2 3 = Ok [None; Some (329, [28]); Some (455, [18])].
Proof. exact @Container_Proofs.ex_go_two_read. Qed.
Print Assumptions ex_go_two_read.

Example ex_go_two_written :
    segment_data [firstn 39 Container_Proofs.go_two] [0; 20]
    (firstn 425 (skipn 65 Container_Proofs.go_two)) Container_Proofs.go_two_locs
    Container_Proofs.go_two_fields = (Container_Proofs.go_two, (49, 545, 490)) /\
    firstn 17 (skipn 357 Container_Proofs.go_two) = dv_trailer [28] /\
    firstn 17 (skipn 473 Container_Proofs.go_two) = dv_trailer [18].
Proof. exact @Container_Proofs.ex_go_two_written. Qed.
Print Assumptions ex_go_two_written.

Example ex_go_empty :
    Container_Proofs.go_empty = Container_Proofs.ex_empty_segment.
Proof. exact @Container_Proofs.ex_go_empty. Qed.
Print Assumptions ex_go_empty.

(* the per-term record of writePostings (freq offset, location offset delta, roaring length and bytes) is read back by PostingsList.read under the exact look-ahead condition ... *)
Theorem term_record_roundtrip :
    forall (pre post : bytes) (tf loc : N) (rb : bytes),
    let data := pre ++ term_record tf loc rb ++ post in
    lenN data < two63 ->
    tf < two64 ->
    loc < two64 ->
    lenN rb < two64 ->
    loc = 0 \/ tf = 0 \/ tf < loc ->
    Reuse_Proofs.record_lookahead_ok rb (lenN post) -> read_term_record data (lenN pre) = Ok (tf, loc, rb).
Proof. exact @Reuse_Proofs.term_record_roundtrip. Qed.
Print Assumptions term_record_roundtrip.

(* ... which holds for every term record of a segment because the fields section follows *)
Theorem term_record_in_segment :
    forall (blocks : list bytes) (docOffsets : list N) (d1 d2 : bytes) (locs : list (N * N))
    (fields : list field_rec) (tf loc : N) (rb : bytes),
    let dicts := d1 ++ term_record tf loc rb ++ d2 in
    let data := fst (segment_data blocks docOffsets dicts locs fields) in
    let postingsOffset :=
    lenN
    ((flat_map' (fun b : list N => b) blocks ++ stored_trailer (0 :: coder_offsets 0 blocks)) ++
    stored_index docOffsets ++ d1) in
    lenN data < two63 ->
    fields <> [] ->
    tf < two64 ->
    loc < two64 ->
    lenN rb < two64 ->
    loc = 0 \/ tf = 0 \/ tf < loc -> read_term_record data postingsOffset = Ok (tf, loc, rb).
Proof. exact @Reuse_Proofs.term_record_in_segment. Qed.
Print Assumptions term_record_in_segment.

(* C16 - Collection statistics describe the documents actually in the segment
   Property theorems only: each statement is given in full and closed by `exact`;
   Print Assumptions follows every theorem.   *)

From Coq Require Import List NArith Bool Sorting Permutation.
From Ice Require Import Base Spec Chunk Postings Enumerator IntCoder Run MergePostings.
From IceProofs Require Build_Proofs MergeAlgebra_Proofs Sort_Proofs MergePostings_Proofs.
Import ListNotations.
Open Scope N_scope.

(* built segment: (Count, documents carrying the field, sum of field lengths) *)
Theorem build_stats_known :
    forall (norm : bytes -> N -> N) (b : Batch) (f : bytes),
    In f (o_fields (abs_of_batch norm b)) -> o_stats (abs_of_batch norm b) f = (lenN b, built_stats b f).
Proof. exact @Build_Proofs.build_stats_known. Qed.
Print Assumptions build_stats_known.

(* all zero for unknown fields *)
Theorem build_stats_unknown :
    forall (norm : bytes -> N -> N) (b : Batch) (f : bytes),
    ~ In f (o_fields (abs_of_batch norm b)) -> o_stats (abs_of_batch norm b) f = (0, (0, 0)).
Proof. exact @Build_Proofs.build_stats_unknown. Qed.
Print Assumptions build_stats_unknown.

(* when field length = sum of term frequencies, the built total equals the total of the postings' frequencies (the merged flavour) *)
Theorem build_stats_flavours_agree :
    forall (norm : bytes -> N -> N) (b : Batch) (f : bytes),
    Build_Proofs.lengths_are_freqs b ->
    snd (built_stats b f) = snd (merged_stats (as_docs (abs_of_batch norm b)) f).
Proof. exact @Build_Proofs.build_stats_flavours_agree. Qed.
Print Assumptions build_stats_flavours_agree.

Theorem roll_up_total_freq :
    forall (fname : bytes) (insts : list Field),
    sumN (map (fun at_ : bytes * (N * list ALoc) => fst (snd at_)) (roll_up fname insts)) =
    sumN (map t_freq (flat_map' f_terms insts)).
Proof. exact @Build_Proofs.roll_up_total_freq. Qed.
Print Assumptions roll_up_total_freq.

(* merged statistics add component-wise over the surviving documents *)
Theorem merge_stats_additive :
    forall (docs1 docs2 : list ADoc) (f : bytes),
    merged_stats (docs1 ++ docs2) f =
    (fst (merged_stats docs1 f) + fst (merged_stats docs2 f),
    snd (merged_stats docs1 f) + snd (merged_stats docs2 f)).
Proof. exact @MergeAlgebra_Proofs.merge_stats_additive. Qed.
Print Assumptions merge_stats_additive.

(* statistics of a merged segment survive a further single-segment merge *)
Theorem merge_identity_merged :
    forall ins : list (ASeg * list N),
    fst (merge_spec [(fst (merge_spec ins), [])]) = fst (merge_spec ins).
Proof. exact @MergeAlgebra_Proofs.merge_identity_merged. Qed.
Print Assumptions merge_identity_merged.

(* the merger model's field statistics (documents with at least one term, sum of the surviving postings' frequencies) are those of the specification *)
Theorem merge_field_stats :
    forall (cm : N) (f : bytes) (insE : list MergePostings_Proofs.InE) (foc : ASeg -> bool),
    (forall (A : ASeg) (dr : list N) (e : bytes -> EncPL),
    In (A, dr, e) insE ->
    MergePostings_Proofs.wf_seg A /\
    (forall t : bytes, In t (o_terms A f) -> MergePostings_Proofs.admissible_enc A f t (e t))) ->
    (forall (A : ASeg) (dr : list N) (e : bytes -> EncPL),
    In (A, dr, e) insE -> foc A = false -> known_field A f = false) ->
    In f (as_fields (fst (merge_spec (MergePostings_Proofs.ins_of insE)))) ->
    valid_mode cm = true ->
    0 < o_count (fst (merge_spec (MergePostings_Proofs.ins_of insE))) ->
    o_count (fst (merge_spec (MergePostings_Proofs.ins_of insE))) < two32 ->
    forall r : FieldResult,
    merge_field cm (o_count (fst (merge_spec (MergePostings_Proofs.ins_of insE))))
    (as_fields (fst (merge_spec (MergePostings_Proofs.ins_of insE))))
    (MergePostings_Proofs.merge_acts f insE foc) = Ok r ->
    fr_docs r = fst (merged_stats (as_docs (fst (merge_spec (MergePostings_Proofs.ins_of insE)))) f) /\
    fr_freqs r = snd (merged_stats (as_docs (fst (merge_spec (MergePostings_Proofs.ins_of insE)))) f).
Proof. exact @MergePostings_Proofs.merge_field_stats. Qed.
Print Assumptions merge_field_stats.

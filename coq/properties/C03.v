(* C03 - Merge reports a correct old-to-new document number mapping
   Property theorems only: each statement is given in full and closed by `exact`;
   Print Assumptions follows every theorem.  base_of ins k = survivors of the inputs before k; rank_of dr d = surviving documents of the input before d. *)

From Coq Require Import List NArith Bool Sorting Permutation.
From Ice Require Import Base Spec.
From IceProofs Require Docnums_Proofs.
Import ListNotations.
Open Scope N_scope.

(* one slice per input segment *)
Theorem docnums_length :
    forall ins : list (ASeg * list N), length (snd (merge_spec ins)) = length ins.
Proof. exact Docnums_Proofs.docnums_length. Qed.
Print Assumptions docnums_length.

(* whose length is that segment's document count *)
Theorem docnums_slice_length :
    forall (ins : list (ASeg * list N)) (k : nat) (A : ASeg) (dr : list N),
    nth_error ins k = Some (A, dr) ->
    exists s : list N, nth_error (snd (merge_spec ins)) k = Some s /\ length s = length (as_docs A).
Proof. exact Docnums_Proofs.docnums_slice_length. Qed.
Print Assumptions docnums_slice_length.

(* deleted documents hold the sentinel, survivors are numbered base + rank *)
Theorem docnums_entry :
    forall (ins : list (ASeg * list N)) (k : nat) (A : ASeg) (dr s : list N) (d : nat),
    nth_error ins k = Some (A, dr) ->
    nth_error (snd (merge_spec ins)) k = Some s ->
    (d < length (as_docs A))%nat ->
    nth_error s d =
    Some
    (if memN (N.of_nat d) dr
    then docDropped
    else Docnums_Proofs.base_of ins k + Docnums_Proofs.rank_of dr d).
Proof. exact Docnums_Proofs.docnums_entry. Qed.
Print Assumptions docnums_entry.

(* survivors are numbered 0,1,2,... consecutively in (segment, document) order *)
Theorem docnums_consecutive :
    forall ins : list (ASeg * list N),
    o_count (fst (merge_spec ins)) < docDropped ->
    filter (fun x : N => negb (x =? docDropped)) (concat (snd (merge_spec ins))) =
    map N.of_nat (seq 0 (N.to_nat (o_count (fst (merge_spec ins))))).
Proof. exact Docnums_Proofs.docnums_consecutive. Qed.
Print Assumptions docnums_consecutive.

(* Count of the merged segment = number of survivors *)
Theorem docnums_count :
    forall ins : list (ASeg * list N),
    o_count (fst (merge_spec ins)) = sumN (map (fun p : ASeg * list N => count_live (fst p) (snd p)) ins).
Proof. exact Docnums_Proofs.docnums_count. Qed.
Print Assumptions docnums_count.

(* the content of every surviving old document is found at exactly its reported new number *)
Theorem docnums_content :
    forall (ins : list (ASeg * list N)) (k : nat) (A : ASeg) (dr : list N) (d : nat),
    nth_error ins k = Some (A, dr) ->
    (d < length (as_docs A))%nat ->
    memN (N.of_nat d) dr = false ->
    nth_error (as_docs (fst (merge_spec ins)))
    (N.to_nat (Docnums_Proofs.base_of ins k + Docnums_Proofs.rank_of dr d)) = 
    nth_error (as_docs A) d.
Proof. exact Docnums_Proofs.docnums_content. Qed.
Print Assumptions docnums_content.

(* nothing survives: every entry of every slice is the sentinel *)
Theorem docnums_zero_survivors :
    forall ins : list (ASeg * list N),
    o_count (fst (merge_spec ins)) = 0 ->
    Forall (fun s : list N => Forall (fun x : N => x = docDropped) s) (snd (merge_spec ins)).
Proof. exact Docnums_Proofs.docnums_zero_survivors. Qed.
Print Assumptions docnums_zero_survivors.

(* non-vacuity *)
Example docnums_example_mixed :
    snd (merge_spec [(Docnums_Proofs.ex_A, [1]); (Docnums_Proofs.ex_B, [])]) =
    [[0; docDropped; 1]; [2; 3]] /\
    o_count (fst (merge_spec [(Docnums_Proofs.ex_A, [1]); (Docnums_Proofs.ex_B, [])])) = 4 /\
    as_docs (fst (merge_spec [(Docnums_Proofs.ex_A, [1]); (Docnums_Proofs.ex_B, [])])) =
    [Docnums_Proofs.ex_doc 48; Docnums_Proofs.ex_doc 50; Docnums_Proofs.ex_doc 51;
    Docnums_Proofs.ex_doc 52].
Proof. exact Docnums_Proofs.docnums_example_mixed. Qed.
Print Assumptions docnums_example_mixed.

Example docnums_example_all_dropped :
    snd (merge_spec [(Docnums_Proofs.ex_A, [0; 1; 2]); (Docnums_Proofs.ex_B, [1; 0])]) =
    [[docDropped; docDropped; docDropped]; [docDropped; docDropped]] /\
    o_count (fst (merge_spec [(Docnums_Proofs.ex_A, [0; 1; 2]); (Docnums_Proofs.ex_B, [1; 0])])) = 0.
Proof. exact Docnums_Proofs.docnums_example_all_dropped. Qed.
Print Assumptions docnums_example_all_dropped.

(* C09 - A segment is safe for concurrent and re-entrant readers, also during a merge
   Property theorems only: each statement is given in full and closed by `exact`;
   Print Assumptions follows every theorem.  Threads are lists of atomic actions on a Segment whose only post-construction mutable state is the FST cache filled under the mutex (that this describes /repo is the GenTie obligation discipline_ok footprints = true, re-checked on every run). A re-entrant read is the same statement with the callback's actions spliced into the caller's list. *)

From Coq Require Import List NArith Bool Sorting Permutation.
From Ice Require Import Base Conc.
From IceProofs Require Conc_Proofs.
Import ListNotations.
Open Scope N_scope.

(* under EVERY schedule each thread has observed exactly what it observes when it runs alone *)
Theorem schedule_independent :
    forall (F D : N -> N) (p : pool) (sched : list nat) (s : shared),
    Conc_Proofs.cache_ok F s ->
    Forall (fun th : list action * list N => Forall (fun a : action => safe_action a = true) (fst th)) p ->
    let
    '(s', p') := run_schedule F D s p sched in
    Conc_Proofs.cache_ok F s' /\
    length p' = length p /\
    (forall (t : nat) (acts : list action) (obs : list N) (acts' : list action) (obs' : list N),
    nth_error p t = Some (acts, obs) ->
    nth_error p' t = Some (acts', obs') ->
    exists done : list action,
    acts = done ++ acts' /\
    obs' =
    rev (map (fun a : action => snd (do_action F D {| cache := []; scratch := 0 |} a)) done) ++ obs).
Proof. exact @Conc_Proofs.schedule_independent. Qed.
Print Assumptions schedule_independent.

Theorem do_action_safe_obs :
    forall (F D : N -> N) (s : shared) (a : action),
    Conc_Proofs.cache_ok F s ->
    safe_action a = true ->
    snd (do_action F D s a) = snd (do_action F D {| cache := []; scratch := 0 |} a) /\
    Conc_Proofs.cache_ok F (fst (do_action F D s a)).
Proof. exact @Conc_Proofs.do_action_safe_obs. Qed.
Print Assumptions do_action_safe_obs.

Theorem alone_obs :
    forall (F D : N -> N) (acts : list action),
    Forall (fun a : action => safe_action a = true) acts ->
    forall (s : shared) (obs : list N),
    Conc_Proofs.cache_ok F s ->
    alone F D s acts obs =
    rev (map (fun a : action => snd (do_action F D {| cache := []; scratch := 0 |} a)) acts) ++ obs.
Proof. exact @Conc_Proofs.alone_obs. Qed.
Print Assumptions alone_obs.

(* what the footprint check demands of every write to shared segment state *)
Theorem discipline_ok_spec :
    forall tbl : list wfoot,
    discipline_ok tbl = true <->
    (forall w : wfoot, In w tbl -> wf_construction w = true \/ wf_locked w = true /\ wf_cachefill w = true).
Proof. exact @Conc_Proofs.discipline_ok_spec. Qed.
Print Assumptions discipline_ok_spec.

(* regression of the method: the pre-fix shared scratch buffer is refuted by a schedule *)
Theorem scratch_refuted :
    exists (F D : N -> N) (p : pool) (sched : list nat),
    let
    '(_, p') := run_schedule F D {| cache := []; scratch := 0 |} p sched in
    exists (acts' : list action) (obs' : list N),
    nth_error p' 0 = Some (acts', obs') /\
    obs' <> alone F D {| cache := []; scratch := 0 |} [AScratchWrite 7; AScratchRead] [].
Proof. exact @Conc_Proofs.scratch_refuted. Qed.
Print Assumptions scratch_refuted.

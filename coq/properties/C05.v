(* C05 - Postings iterators navigate correctly under Next/Advance, exclusions and flags
   Property theorems only: each statement is given in full and closed by `exact`;
   Print Assumptions follows every theorem.  it_run is the statement-by-statement model of PostingsIterator (Postings.v) over the chunked varint encoding encode_gen; spec_out is the specification cursor (Spec.spec_run) seen through the flags. *)

From Coq Require Import List NArith Bool Sorting Permutation.
From Ice Require Import Base Spec Varint Chunk Postings.
From IceProofs Require Iterator_Proofs.
Import ListNotations.
Open Scope N_scope.

(* general encoding: any well-formed postings list, chunk size, exclusion set (or none), flags, reused old iterator, op sequence *)
Theorem iter_refines :
    forall (fields : list bytes) (ps : list EPosting) (cs : N) (total : nat) (except : option (list N))
    (inclFN inclLocs : bool) (old : option It) (ops : list iter_op),
    Iterator_Proofs.wf_postings (length fields) ps ->
    0 < cs ->
    (forall p : EPosting, In p ps -> (N.to_nat (ep_doc p / cs) < total)%nat) ->
    (inclLocs = true -> inclFN = true) ->
    Iterator_Proofs.wf_ops ops ->
    it_run (it_init (encode_gen cs total ps) except inclFN inclLocs fields old) ops =
    Ok
    (Iterator_Proofs.spec_out inclFN inclLocs
    (filter (fun p : N * (N * (N * list ALoc)) => Iterator_Proofs.live_opt except (fst p))
    (map (Iterator_Proofs.resolve_posting fields) ps)) ops).
Proof. exact Iterator_Proofs.iter_refines. Qed.
Print Assumptions iter_refines.

(* after ReplaceActual with any subset of the postings *)
Theorem iter_refines_replaced :
    forall (fields : list bytes) (ps : list EPosting) (cs : N) (total : nat) (except : option (list N))
    (inclFN inclLocs : bool) (old : option It) (abm : list N) (ops : list iter_op),
    Iterator_Proofs.wf_postings (length fields) ps ->
    0 < cs ->
    (forall p : EPosting, In p ps -> (N.to_nat (ep_doc p / cs) < total)%nat) ->
    (inclLocs = true -> inclFN = true) ->
    Iterator_Proofs.wf_ops ops ->
    StronglySorted N.lt abm ->
    (forall d : N, In d abm -> In d (map ep_doc ps)) ->
    it_run (it_replace (it_init (encode_gen cs total ps) except inclFN inclLocs fields old) abm) ops =
    Ok
    (Iterator_Proofs.spec_out inclFN inclLocs
    (filter (fun p : N * (N * (N * list ALoc)) => memN (fst p) abm)
    (map (Iterator_Proofs.resolve_posting fields) ps)) ops).
Proof. exact Iterator_Proofs.iter_refines_replaced. Qed.
Print Assumptions iter_refines_replaced.

(* the 1-hit encoding *)
Theorem iter_refines_1hit :
    forall (doc nb : N) (except : option (list N)) (inclFN inclLocs : bool) (fields : list bytes)
    (old : option It) (ops : list iter_op),
    nb <> 0 ->
    nb < two32 ->
    doc < two32 ->
    it_run (it_init (E1Hit doc nb) except inclFN inclLocs fields old) ops =
    Ok
    (Iterator_Proofs.spec_out inclFN inclLocs
    (filter (fun p : N * (N * (N * list ALoc)) => Iterator_Proofs.live_opt except (fst p))
    [(doc, (1, (nb, [])))]) ops).
Proof. exact Iterator_Proofs.iter_refines_1hit. Qed.
Print Assumptions iter_refines_1hit.

(* no flag set: only the cursor moves *)
Theorem iter_refines_nofreq :
    forall (fields : list bytes) (ps : list EPosting) (cs : N) (total : nat) (except : option (list N))
    (old : option It) (ops : list iter_op),
    Iterator_Proofs.wf_postings (length fields) ps ->
    0 < cs ->
    (forall p : EPosting, In p ps -> (N.to_nat (ep_doc p / cs) < total)%nat) ->
    Iterator_Proofs.wf_ops ops ->
    it_run (it_init (encode_gen cs total ps) except false false fields old) ops =
    Ok
    (Iterator_Proofs.spec_out false false
    (filter (fun p : N * (N * (N * list ALoc)) => Iterator_Proofs.live_opt except (fst p))
    (map (Iterator_Proofs.resolve_posting fields) ps)) ops).
Proof. exact Iterator_Proofs.iter_refines_nofreq. Qed.
Print Assumptions iter_refines_nofreq.

(* Count() = number of non-excluded postings *)
Theorem count_refines :
    forall (cs : N) (total : nat) (ps : list EPosting) (except : option (list N)),
    pl_count (encode_gen cs total ps) except =
    lenN (filter (fun p : EPosting => Iterator_Proofs.live_opt except (ep_doc p)) ps).
Proof. exact Iterator_Proofs.count_refines. Qed.
Print Assumptions count_refines.

Theorem count_refines_1hit :
    forall (doc nb : N) (except : option (list N)),
    pl_count (E1Hit doc nb) except = lenN (filter (fun d : N => Iterator_Proofs.live_opt except d) [doc]).
Proof. exact Iterator_Proofs.count_refines_1hit. Qed.
Print Assumptions count_refines_1hit.

(* non-vacuity: a concrete 5-posting list meets the hypotheses *)
Example ex_wf :
    Iterator_Proofs.wf_postings 2 Iterator_Proofs.ex_ps.
Proof. exact Iterator_Proofs.ex_wf. Qed.
Print Assumptions ex_wf.

Example ex_hyps :
    0 < 2 /\
    (forall p : EPosting, In p Iterator_Proofs.ex_ps -> (N.to_nat (ep_doc p / 2) < 5)%nat) /\
    Iterator_Proofs.wf_ops Iterator_Proofs.ex_ops.
Proof. exact Iterator_Proofs.ex_hyps. Qed.
Print Assumptions ex_hyps.

Example ex_both_sides :
    it_run
    (it_init (encode_gen 2 5 Iterator_Proofs.ex_ps) (Some [3]) true true Iterator_Proofs.ex_fields None)
    Iterator_Proofs.ex_ops = Ok Iterator_Proofs.ex_expected /\
    Iterator_Proofs.spec_out true true
    (filter (fun p : N * (N * (N * list ALoc)) => Iterator_Proofs.live_opt (Some [3]) (fst p))
    (map (Iterator_Proofs.resolve_posting Iterator_Proofs.ex_fields) Iterator_Proofs.ex_ps))
    Iterator_Proofs.ex_ops = Iterator_Proofs.ex_expected.
Proof. exact Iterator_Proofs.ex_both_sides. Qed.
Print Assumptions ex_both_sides.

Example ex_by_theorem :
    it_run
    (it_init (encode_gen 2 5 Iterator_Proofs.ex_ps) (Some [3]) true true Iterator_Proofs.ex_fields None)
    Iterator_Proofs.ex_ops =
    Ok
    (Iterator_Proofs.spec_out true true
    (filter (fun p : N * (N * (N * list ALoc)) => Iterator_Proofs.live_opt (Some [3]) (fst p))
    (map (Iterator_Proofs.resolve_posting Iterator_Proofs.ex_fields) Iterator_Proofs.ex_ps))
    Iterator_Proofs.ex_ops).
Proof. exact Iterator_Proofs.ex_by_theorem. Qed.
Print Assumptions ex_by_theorem.

(* C13 - Reusing iterators, postings lists and readers never changes results
   Property theorems only: each statement is given in full and closed by `exact`;
   Print Assumptions follows every theorem.   *)

From Coq Require Import List NArith Bool Sorting Permutation.
From Ice Require Import Base Spec Varint Chunk Postings Dict DocValues.
From IceProofs Require Dict_Proofs Iterator_Proofs DocValues_Proofs.
Import ListNotations.
Open Scope N_scope.

(* a preallocated iterator, whatever state it is in, yields the same iterator as a fresh one *)
Theorem it_init_old_irrelevant :
    forall (e : EncPL) (ex : option (list N)) (fn locs : bool) (fields : list bytes) (old : It),
    it_init e ex fn locs fields (Some old) = it_init e ex fn locs fields None.
Proof. exact Dict_Proofs.it_init_old_irrelevant. Qed.
Print Assumptions it_init_old_irrelevant.

(* ... and the results are the specification's for every old object (forall old) *)
Theorem reuse_iter_refines :
    forall (fields : list bytes) (ps : list EPosting) (cs : N) (total : nat) (except : option (list N))
    (inclFN inclLocs : bool) (old : option It) (ops : list iter_op),
    Iterator_Proofs.wf_postings (length fields) ps ->
    0 < cs ->
    (forall p : EPosting, In p ps -> (N.to_nat (ep_doc p / cs) < total)%nat) ->
    (inclLocs = true -> inclFN = true) ->
    Iterator_Proofs.wf_ops ops ->
    it_run (it_init (encode_gen cs total ps) except inclFN inclLocs fields old) ops =
    Ok
    (Iterator_Proofs.spec_out inclFN inclLocs
    (filter (fun p : N * (N * (N * list ALoc)) => Iterator_Proofs.live_opt except (fst p))
    (map (Iterator_Proofs.resolve_posting fields) ps)) ops).
Proof. exact Iterator_Proofs.iter_refines. Qed.
Print Assumptions reuse_iter_refines.

(* the dictionary iterator's reused scratch list (forall tmp) *)
Theorem reuse_dict_scratch :
    forall (tmp : PL) (entries : list (bytes * FstVal)),
    pl_except tmp = None ->
    (forall (k : bytes) (d nb : N), In (k, V1Hit d nb) entries -> nb <> 0) ->
    dict_iter pl_read tmp entries = map (fun e : bytes * FstVal => (fst e, fst_count (snd e))) entries.
Proof. exact Dict_Proofs.dict_iter_counts. Qed.
Print Assumptions reuse_dict_scratch.

(* a doc-value reader continued from any consistent earlier state (forall r) *)
Theorem reuse_dv_reader :
    forall (field : bytes) (numDocs : N) (es : list (N * list bytes)) (r : DvReader) (n : N),
    0 < numDocs ->
    numDocs <= two64 ->
    DocValues_Proofs.wf_entries numDocs es ->
    n < numDocs ->
    DocValues_Proofs.reader_ok
    (dv_chunks (DocValues_Proofs.nchunks_for numDocs) (DocValues_Proofs.enc_entries es)) r ->
    exists r' : DvReader,
    dv_visit r field n = Ok (r', DocValues_Proofs.spec_dv field es n) /\
    DocValues_Proofs.reader_ok
    (dv_chunks (DocValues_Proofs.nchunks_for numDocs) (DocValues_Proofs.enc_entries es)) r'.
Proof. exact DocValues_Proofs.dv_visit_correct. Qed.
Print Assumptions reuse_dv_reader.

Theorem reuse_dv_reader_fields :
    forall (numDocs : N) (tbl : list (bytes * list (N * list bytes))) (fields : list bytes)
    (visits : list N),
    0 < numDocs ->
    numDocs <= two64 ->
    NoDup (map fst tbl) ->
    Forall (fun p : bytes * list (N * list bytes) => DocValues_Proofs.wf_entries numDocs (snd p)) tbl ->
    Forall (fun n : N => n < numDocs) visits ->
    dv_run
    (map
    (fun p : bytes * list (N * list bytes) =>
    (fst p,
    dv_open
    (dv_chunks (DocValues_Proofs.nchunks_for numDocs) (DocValues_Proofs.enc_entries (snd p)))))
    tbl) fields visits =
    Ok
    (map
    (fun n : N =>
    flat_map'
    (fun f : bytes =>
    match find (fun p : bytes * list (N * list bytes) => beq (fst p) f) tbl with
    | Some p => DocValues_Proofs.spec_dv f (snd p) n
    | None => []
    end) fields) visits).
Proof. exact DocValues_Proofs.dv_run_fields. Qed.
Print Assumptions reuse_dv_reader_fields.

(* C13 - Reusing iterators, postings lists and readers never changes results
   Property theorems only: each statement is given in full and closed by `exact`;
   Print Assumptions follows every theorem.   *)

From Coq Require Import List NArith Bool Sorting Permutation.
From Ice Require Import Base Spec Varint Chunk Postings Dict DocValues Container Reuse.
From IceProofs Require Dict_Proofs Iterator_Proofs DocValues_Proofs Reuse_Proofs.
Import ListNotations.
Open Scope N_scope.

(* a preallocated iterator, whatever state it is in, yields the same iterator as a fresh one *)
Theorem it_init_old_irrelevant :
    forall (e : EncPL) (ex : option (list N)) (fn locs : bool) (fields : list bytes) (old : It),
    it_init e ex fn locs fields (Some old) = it_init e ex fn locs fields None.
Proof. exact @Dict_Proofs.it_init_old_irrelevant. Qed.
Print Assumptions it_init_old_irrelevant.

(* ... and the results are the specification's for every old object (forall old) *)
Theorem reuse_iter_refines :
    forall (fields : list bytes) (ps : list EPosting) (cs : N) (total : nat) (except : option (list N))
    (inclFN inclLocs : bool) (old : option It) (ops : list iter_op),
    Iterator_Proofs.wf_postings (length fields) ps ->
    0 < cs ->
    (forall p : EPosting, In p ps -> (N.to_nat (ep_doc p / cs) < total)%nat) ->
    (inclLocs = true -> inclFN = true) ->
    Iterator_Proofs.wf_ops ops ->
    it_run (it_init (encode_gen cs total ps) except inclFN inclLocs fields old) ops =
    Ok
    (Iterator_Proofs.spec_out inclFN inclLocs
    (filter (fun p : N * (N * (N * list ALoc)) => Iterator_Proofs.live_opt except (fst p))
    (map (Iterator_Proofs.resolve_posting fields) ps)) ops).
Proof. exact @Iterator_Proofs.iter_refines. Qed.
Print Assumptions reuse_iter_refines.

(* the dictionary iterator's reused scratch list (forall tmp) *)
Theorem reuse_dict_scratch :
    forall (tmp : PL) (entries : list (bytes * FstVal)),
    pl_except tmp = None ->
    (forall (k : bytes) (d nb : N), In (k, V1Hit d nb) entries -> nb <> 0) ->
    dict_iter pl_read tmp entries = map (fun e : bytes * FstVal => (fst e, fst_count (snd e))) entries.
Proof. exact @Dict_Proofs.dict_iter_counts. Qed.
Print Assumptions reuse_dict_scratch.

(* a doc-value reader continued from any consistent earlier state (forall r) *)
Theorem reuse_dv_reader :
    forall (field : bytes) (numDocs : N) (es : list (N * list bytes)) (r : DvReader) (n : N),
    0 < numDocs ->
    numDocs <= two64 ->
    DocValues_Proofs.wf_entries numDocs es ->
    n < numDocs ->
    DocValues_Proofs.reader_ok
    (dv_chunks (DocValues_Proofs.nchunks_for numDocs) (DocValues_Proofs.enc_entries es)) r ->
    exists r' : DvReader,
    dv_visit r field n = Ok (r', DocValues_Proofs.spec_dv field es n) /\
    DocValues_Proofs.reader_ok
    (dv_chunks (DocValues_Proofs.nchunks_for numDocs) (DocValues_Proofs.enc_entries es)) r'.
Proof. exact @DocValues_Proofs.dv_visit_correct. Qed.
Print Assumptions reuse_dv_reader.

Theorem reuse_dv_reader_fields :
    forall (numDocs : N) (tbl : list (bytes * list (N * list bytes))) (fields : list bytes)
    (visits : list N),
    0 < numDocs ->
    numDocs <= two64 ->
    NoDup (map fst tbl) ->
    Forall (fun p : bytes * list (N * list bytes) => DocValues_Proofs.wf_entries numDocs (snd p)) tbl ->
    Forall (fun n : N => n < numDocs) visits ->
    dv_run
    (map
    (fun p : bytes * list (N * list bytes) =>
    (fst p,
    dv_open
    (dv_chunks (DocValues_Proofs.nchunks_for numDocs) (DocValues_Proofs.enc_entries (snd p)))))
    tbl) fields visits =
    Ok
    (map
    (fun n : N =>
    flat_map'
    (fun f : bytes =>
    match find (fun p : bytes * list (N * list bytes) => beq (fst p) f) tbl with
    | Some p => DocValues_Proofs.spec_dv f (snd p) n
    | None => []
    end) fields) visits).
Proof. exact @DocValues_Proofs.dv_run_fields. Qed.
Print Assumptions reuse_dv_reader_fields.

(* the history form: in every finite sequence of lookups in which each lookup may pass ANY list or iterator produced earlier (also the two shared empty objects returned by earlier empty lookups) as prealloc, every lookup's Count, OrInto and iterated postings are those of the same lookup with fresh objects *)
Theorem reuse_transparent :
    forall lks : list lookup,
    exists (st : state) (os : list obs),
    run_seq st_init lks = Ok (st, os) /\
    Forall2
    (fun (lk : lookup) (o : obs) =>
    exists st' : state, do_lookup st_init (no_prealloc lk) = Ok (st', o)) lks os.
Proof. exact @Reuse_Proofs.reuse_transparent. Qed.
Print Assumptions reuse_transparent.

(* the package-level empty postings list and empty iterator are never written, whatever is handed back as prealloc *)
Theorem shared_objects_never_written :
    forall lks : list lookup,
    exists (st : state) (os : list obs),
    run_seq st_init lks = Ok (st, os) /\
    ps_shared (st_pls st) = plobj_zero /\ is_shared (st_its st) = itobj_zero.
Proof. exact @Reuse_Proofs.shared_objects_never_written. Qed.
Print Assumptions shared_objects_never_written.

(* an absent term or an unknown field yields nothing whatever the reused objects held before *)
Theorem absent_observes_nothing :
    forall (lks : list lookup) (k : nat) (lk : lookup),
    nth_error lks k = Some lk ->
    Reuse_Proofs.absent lk ->
    exists (st : state) (os : list obs),
    run_seq st_init lks = Ok (st, os) /\ nth_error os k = Some Reuse_Proofs.obs_nothing.
Proof. exact @Reuse_Proofs.absent_observes_nothing. Qed.
Print Assumptions absent_observes_nothing.

(* the iterator's reused Posting struct (cleared at every step) delivers exactly what the cursor model delivers *)
Theorem buf_run_equals_model :
    forall (ops : list iter_op) (i : It) (b : nextbuf), buf_run true i b ops = it_run i ops.
Proof. exact @Reuse_Proofs.buf_run_equals_model. Qed.
Print Assumptions buf_run_equals_model.

(* regression of the method: without the emptyPostingsList guard the shared object is written and a later absent lookup sees postings *)
Theorem no_guard_refuted :
    Reuse_Proofs.summary
    (run_seq_gen false true st_init
    [Reuse_Proofs.w_absent None None; Reuse_Proofs.w_present (Some 0%nat) None;
    Reuse_Proofs.w_absent None None]) =
    Some
    ({|
    po_postings := Some [1; 5];
    po_doc1 := 0;
    po_norm1 := 0;
    po_except := None;
    po_sb := Some Reuse_Proofs.w_fields;
    po_enc := Some (encode_gen 4 2 Reuse_Proofs.w_ps)
    |}, itobj_zero, [Reuse_Proofs.obs_nothing; Reuse_Proofs.w_obs_a; Reuse_Proofs.w_obs_a]) /\
    Reuse_Proofs.summary
    (run_seq st_init
    [Reuse_Proofs.w_absent None None; Reuse_Proofs.w_present (Some 0%nat) None;
    Reuse_Proofs.w_absent None None]) =
    Some
    (plobj_zero, itobj_zero, [Reuse_Proofs.obs_nothing; Reuse_Proofs.w_obs_a; Reuse_Proofs.obs_nothing]).
Proof. exact @Reuse_Proofs.no_guard_refuted. Qed.
Print Assumptions no_guard_refuted.

(* ... and without Clear() a reused list answers an absent term with the previous term's documents *)
Theorem no_clear_refuted :
    Reuse_Proofs.summary
    (run_seq_gen true false st_init
    [Reuse_Proofs.w_present None None; Reuse_Proofs.w_absent (Some 0%nat) None]) =
    Some
    (plobj_zero, itobj_zero,
    [Reuse_Proofs.w_obs_a; {| ob_count := 2; ob_docs := [1; 5]; ob_postings := ([], Panic) |}]) /\
    Reuse_Proofs.summary
    (run_seq st_init [Reuse_Proofs.w_present None None; Reuse_Proofs.w_absent (Some 0%nat) None]) =
    Some (plobj_zero, itobj_zero, [Reuse_Proofs.w_obs_a; Reuse_Proofs.obs_nothing]).
Proof. exact @Reuse_Proofs.no_clear_refuted. Qed.
Print Assumptions no_clear_refuted.

(* ... and without clearing the Posting struct a posting without locations carries the previous one's *)
Theorem noclear_refuted :
    buf_run false Reuse_Proofs.nc_it nb_zero [INext; INext; INext] =
    Ok
    [Some (0, (1, (1065353216, [([102], (7, (20, 25)))])));
    Some (1, (2, (1056964608, [([102], (7, (20, 25)))]))); None] /\
    buf_run false Reuse_Proofs.nc_it nb_zero [INext; INext; INext] <>
    it_run Reuse_Proofs.nc_it [INext; INext; INext].
Proof. exact @Reuse_Proofs.noclear_refuted. Qed.
Print Assumptions noclear_refuted.

(* C12 - A failing writer or a cancelled merge never yields silent success
   Property theorems only: each statement is given in full and closed by `exact`;
   Print Assumptions follows every theorem.  writeto bufsize k sites: the sites (length, checked?) are written through a bufio.Writer of the given size onto a destination that accepts k bytes and then fails forever, closed by the checked Flush; result = (error?, bytes that reached the destination). *)

From Coq Require Import List NArith Bool Sorting Permutation.
From Ice Require Import Base Writer.
From IceProofs Require Writer_Proofs.
Import ListNotations.
Open Scope N_scope.

(* the destination fails before the file is complete: WriteTo returns an error whatever the individual sites do with their errors *)
Theorem no_silent_success :
    forall (bufsize k : N) (sites : list site),
    k < total_bytes sites -> fst (writeto bufsize k sites) = true.
Proof. exact @Writer_Proofs.no_silent_success. Qed.
Print Assumptions no_silent_success.

(* success is only ever reported when every byte reached the destination *)
Theorem success_means_complete :
    forall (bufsize k : N) (sites : list site),
    fst (writeto bufsize k sites) = false ->
    snd (writeto bufsize k sites) = total_bytes sites /\ total_bytes sites <= k.
Proof. exact @Writer_Proofs.success_means_complete. Qed.
Print Assumptions success_means_complete.

Theorem enough_room_succeeds :
    forall (bufsize k : N) (sites : list site),
    total_bytes sites <= k -> writeto bufsize k sites = (false, total_bytes sites).
Proof. exact @Writer_Proofs.enough_room_succeeds. Qed.
Print Assumptions enough_room_succeeds.

Theorem dest_write_accepted :
    forall (d : dest) (n : N),
    let
    '(d', w, err) := dest_write d n in
    accepted d' = accepted d + w /\ (err = false -> w = n) /\ (err = true -> room d' = 0 /\ w < n).
Proof. exact @Writer_Proofs.dest_write_accepted. Qed.
Print Assumptions dest_write_accepted.

(* a cancelled merge returns ErrClosed or the complete output *)
Theorem cancel_closed_or_complete :
    forall (phases : list (bool * N)) (closed_from : nat),
    run_phases 0 closed_from 0 phases = CClosed \/
    run_phases 0 closed_from 0 phases = CDone (sumN (map snd phases)).
Proof. exact @Writer_Proofs.cancel_closed_or_complete. Qed.
Print Assumptions cancel_closed_or_complete.

Theorem cancel_never_closed :
    forall phases : list (bool * N),
    run_phases 0 (length phases + 1) 0 phases = CDone (sumN (map snd phases)).
Proof. exact @Writer_Proofs.cancel_never_closed. Qed.
Print Assumptions cancel_never_closed.

Example writeto_fails_at_4000 :
    writeto 16 4000 [(10, true); (5000, false); (3, false)] = (true, 4000).
Proof. exact @Writer_Proofs.writeto_fails_at_4000. Qed.
Print Assumptions writeto_fails_at_4000.

Example writeto_succeeds_at_6000 :
    writeto 16 6000 [(10, true); (5000, false); (3, false)] = (false, 5013).
Proof. exact @Writer_Proofs.writeto_succeeds_at_6000. Qed.
Print Assumptions writeto_succeeds_at_6000.

(* C15 - Reading, persisting and merging never modify a segment or the caller's bitmaps
   Property theorems only: each statement is given in full and closed by `exact`;
   Print Assumptions follows every theorem.  Run.step is the interpreter of the executable model that the correspondence check runs against the real package; deletion sets are values (lists) in the model, so they cannot change. *)

From Coq Require Import List NArith Bool Sorting Permutation.
From Ice Require Import Base Spec Run.
From IceProofs Require Immut_Proofs.
Import ListNotations.
Open Scope N_scope.

(* no operation changes an existing segment: slots are only appended *)
Theorem step_preserves_slots :
    forall (st : list Slot) (o : op), exists ext : list Slot, fst (step st o) = st ++ ext.
Proof. exact Immut_Proofs.step_preserves_slots. Qed.
Print Assumptions step_preserves_slots.

(* reads add nothing *)
Theorem step_reads_preserve :
    forall (st : list Slot) (o : op),
    match o with
    | OBuild _ _ | OMerge _ _ | OReload _ _ => False
    | _ => True
    end -> fst (step st o) = st.
Proof. exact Immut_Proofs.step_reads_preserve. Qed.
Print Assumptions step_reads_preserve.

(* the inputs of a merge are what they were *)
Theorem merge_inputs_unchanged :
    forall (st : list Slot) (cm : N) (ins : list (N * list N)) (k : nat) (s : Slot),
    nth_error st k = Some s -> nth_error (fst (step st (OMerge cm ins))) k = Some s.
Proof. exact Immut_Proofs.merge_inputs_unchanged. Qed.
Print Assumptions merge_inputs_unchanged.

(* lifted over every finite history *)
Theorem run_preserves_slot :
    forall (st : list Slot) (ops : list op) (k : nat) (s : Slot),
    nth_error st k = Some s ->
    forall st' : list Slot,
    st' = fold_left (fun (acc : list Slot) (o : op) => fst (step acc o)) ops st ->
    nth_error st' k = Some s.
Proof. exact Immut_Proofs.run_preserves_slot. Qed.
Print Assumptions run_preserves_slot.

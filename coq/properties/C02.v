(* C02 - A merge is indistinguishable from rebuilding the surviving documents
   Property theorems only: each statement is given in full and closed by `exact`;
   Print Assumptions follows every theorem.   *)

From Coq Require Import List NArith Bool Sorting Permutation.
From Ice Require Import Base Spec.
From IceProofs Require MergeAlgebra_Proofs Docnums_Proofs Sort_Proofs.
Import ListNotations.
Open Scope N_scope.

(* the merged segment holds exactly the surviving documents in (segment, document) order *)
Theorem merge_docs :
    forall ins : list (ASeg * list N),
    as_docs (fst (merge_spec ins)) = flat_map' (fun p : ASeg * list N => survivors (fst p) (snd p)) ins.
Proof. exact MergeAlgebra_Proofs.merge_docs. Qed.
Print Assumptions merge_docs.

(* the field list is the union with _id first *)
Theorem merge_fields :
    forall ins : list (ASeg * list N),
    as_fields (fst (merge_spec ins)) =
    field_list (flat_map' (fun p : ASeg * list N => as_fields (fst p)) ins).
Proof. exact MergeAlgebra_Proofs.merge_fields. Qed.
Print Assumptions merge_fields.

Theorem merge_fields_In :
    forall (ins : list (ASeg * list N)) (f : bytes),
    In f (as_fields (fst (merge_spec ins))) <->
    f = id_name \/ (exists (A : ASeg) (dr : list N), In (A, dr) ins /\ In f (as_fields A)).
Proof. exact MergeAlgebra_Proofs.merge_fields_In. Qed.
Print Assumptions merge_fields_In.

Theorem merge_fields_id_first :
    forall ins : list (ASeg * list N),
    exists rest : list bytes,
    as_fields (fst (merge_spec ins)) = id_name :: rest /\
    Sort_Proofs.strict_sorted_bytes rest /\ ~ In id_name rest.
Proof. exact MergeAlgebra_Proofs.merge_fields_id_first. Qed.
Print Assumptions merge_fields_id_first.

(* postings of the merged segment are those of the surviving documents under their new numbers *)
Theorem merge_postings_docs :
    forall (ins : list (ASeg * list N)) (f t : bytes),
    o_postings (fst (merge_spec ins)) f t =
    (if known_field (fst (merge_spec ins)) f
    then
    flat_map' (doc_posting f t)
    (number_from 0 (flat_map' (fun p : ASeg * list N => survivors (fst p) (snd p)) ins))
    else []).
Proof. exact MergeAlgebra_Proofs.merge_postings_docs. Qed.
Print Assumptions merge_postings_docs.

(* terms whose documents were all deleted disappear *)
Theorem merge_terms_survive :
    forall (ins : list (ASeg * list N)) (f t : bytes),
    In t (o_terms (fst (merge_spec ins)) f) <->
    known_field (fst (merge_spec ins)) f = true /\
    (exists (p : ASeg * list N) (d : ADoc),
    In p ins /\ In d (survivors (fst p) (snd p)) /\ In t (map fst (doc_terms d f))).
Proof. exact MergeAlgebra_Proofs.merge_terms_survive. Qed.
Print Assumptions merge_terms_survive.

(* deleted documents are unreachable; survivors keep their content *)
Theorem docnums_content :
    forall (ins : list (ASeg * list N)) (k : nat) (A : ASeg) (dr : list N) (d : nat),
    nth_error ins k = Some (A, dr) ->
    (d < length (as_docs A))%nat ->
    memN (N.of_nat d) dr = false ->
    nth_error (as_docs (fst (merge_spec ins)))
    (N.to_nat (Docnums_Proofs.base_of ins k + Docnums_Proofs.rank_of dr d)) = 
    nth_error (as_docs A) d.
Proof. exact Docnums_Proofs.docnums_content. Qed.
Print Assumptions docnums_content.

Theorem survivors_nil_drops :
    forall A : ASeg, survivors A [] = as_docs A.
Proof. exact MergeAlgebra_Proofs.survivors_nil_drops. Qed.
Print Assumptions survivors_nil_drops.

(* C02 - A merge is indistinguishable from rebuilding the surviving documents
   Property theorems only: each statement is given in full and closed by `exact`;
   Print Assumptions follows every theorem.   *)

From Coq Require Import List NArith Bool Sorting Permutation.
From Ice Require Import Base Spec Chunk Postings Enumerator IntCoder Run MergePostings DocValues DvWriter Stored StoredWriter Units.
From IceProofs Require MergeAlgebra_Proofs Docnums_Proofs Sort_Proofs Enumerator_Proofs MergePostings_Proofs DvWriter_Proofs StoredWriter_Proofs Units_Proofs.
Import ListNotations.
Open Scope N_scope.

(* the merged segment holds exactly the surviving documents in (segment, document) order *)
Theorem merge_docs :
    forall ins : list (ASeg * list N),
    as_docs (fst (merge_spec ins)) = flat_map' (fun p : ASeg * list N => survivors (fst p) (snd p)) ins.
Proof. exact @MergeAlgebra_Proofs.merge_docs. Qed.
Print Assumptions merge_docs.

(* the field list is the union with _id first *)
Theorem merge_fields :
    forall ins : list (ASeg * list N),
    as_fields (fst (merge_spec ins)) =
    field_list (flat_map' (fun p : ASeg * list N => as_fields (fst p)) ins).
Proof. exact @MergeAlgebra_Proofs.merge_fields. Qed.
Print Assumptions merge_fields.

Theorem merge_fields_In :
    forall (ins : list (ASeg * list N)) (f : bytes),
    In f (as_fields (fst (merge_spec ins))) <->
    f = id_name \/ (exists (A : ASeg) (dr : list N), In (A, dr) ins /\ In f (as_fields A)).
Proof. exact @MergeAlgebra_Proofs.merge_fields_In. Qed.
Print Assumptions merge_fields_In.

Theorem merge_fields_id_first :
    forall ins : list (ASeg * list N),
    exists rest : list bytes,
    as_fields (fst (merge_spec ins)) = id_name :: rest /\
    Sort_Proofs.strict_sorted_bytes rest /\ ~ In id_name rest.
Proof. exact @MergeAlgebra_Proofs.merge_fields_id_first. Qed.
Print Assumptions merge_fields_id_first.

(* postings of the merged segment are those of the surviving documents under their new numbers *)
Theorem merge_postings_docs :
    forall (ins : list (ASeg * list N)) (f t : bytes),
    o_postings (fst (merge_spec ins)) f t =
    (if known_field (fst (merge_spec ins)) f
    then
    flat_map' (doc_posting f t)
    (number_from 0 (flat_map' (fun p : ASeg * list N => survivors (fst p) (snd p)) ins))
    else []).
Proof. exact @MergeAlgebra_Proofs.merge_postings_docs. Qed.
Print Assumptions merge_postings_docs.

(* terms whose documents were all deleted disappear *)
Theorem merge_terms_survive :
    forall (ins : list (ASeg * list N)) (f t : bytes),
    In t (o_terms (fst (merge_spec ins)) f) <->
    known_field (fst (merge_spec ins)) f = true /\
    (exists (p : ASeg * list N) (d : ADoc),
    In p ins /\ In d (survivors (fst p) (snd p)) /\ In t (map fst (doc_terms d f))).
Proof. exact @MergeAlgebra_Proofs.merge_terms_survive. Qed.
Print Assumptions merge_terms_survive.

(* deleted documents are unreachable; survivors keep their content *)
Theorem docnums_content :
    forall (ins : list (ASeg * list N)) (k : nat) (A : ASeg) (dr : list N) (d : nat),
    nth_error ins k = Some (A, dr) ->
    (d < length (as_docs A))%nat ->
    memN (N.of_nat d) dr = false ->
    nth_error (as_docs (fst (merge_spec ins)))
    (N.to_nat (Docnums_Proofs.base_of ins k + Docnums_Proofs.rank_of dr d)) = 
    nth_error (as_docs A) d.
Proof. exact @Docnums_Proofs.docnums_content. Qed.
Print Assumptions docnums_content.

Theorem survivors_nil_drops :
    forall A : ASeg, survivors A [] = as_docs A.
Proof. exact @MergeAlgebra_Proofs.survivors_nil_drops. Qed.
Print Assumptions survivors_nil_drops.

(* the k-way merge of the input dictionaries (enumerator.go, with vellum's real iterator behaviour) visits every (term, segment, value) exactly once, sorted by term then segment, including the empty term *)
Theorem enumerator_sorted_complete :
    forall (its : list vitr) (fuel : nat),
    Forall Enumerator_Proofs.key_sorted its ->
    Forall Enumerator_Proofs.empty_key_nz its ->
    (total_pairs its <= fuel)%nat -> enum_run_new fuel its = spec_triples its.
Proof. exact @Enumerator_Proofs.enumerator_sorted_complete. Qed.
Print Assumptions enumerator_sorted_complete.

Theorem enumerator_visits_each_once :
    forall (its : list vitr) (fuel : nat),
    Forall Enumerator_Proofs.key_sorted its ->
    Forall Enumerator_Proofs.empty_key_nz its ->
    (total_pairs its <= fuel)%nat ->
    NoDup (map fst (enum_run_new fuel its)) /\
    (forall (k : bytes) (i : nat) (v : N),
    In (k, i, v) (enum_run_new fuel its) <-> (i < length its)%nat /\ In (k, v) (nth i its [])).
Proof. exact @Enumerator_Proofs.enumerator_visits_each_once. Qed.
Print Assumptions enumerator_visits_each_once.

(* GetLowIdxsAndValues returns exactly the segments positioned on the current term *)
Theorem enum_low_idxs :
    forall (its : list vitr) (fuel : nat) (k : bytes) (i : nat) (v : N) (idxs : list nat) (vals : list N),
    Forall Enumerator_Proofs.key_sorted its ->
    Forall Enumerator_Proofs.empty_key_nz its ->
    (total_pairs its <= fuel)%nat ->
    In (k, i, v, (idxs, vals)) (enum_run_low_new fuel its) ->
    idxs = idxs_with k its /\
    vals = vals_with k its /\
    StronglySorted lt idxs /\
    (forall j : nat, In j idxs <-> (j < length its)%nat /\ has_key k (nth j its []) = true) /\ In i idxs.
Proof. exact @Enumerator_Proofs.enum_low_idxs. Qed.
Print Assumptions enum_low_idxs.

(* the one excluded case (an empty term whose FST value is 0, which ice never writes) is refuted by a witness: the hypothesis is necessary *)
Theorem empty_key_zero_value_refuted :
    exists its : list vitr,
    Forall Enumerator_Proofs.key_sorted its /\
    (forall (l : vitr) (k : bytes) (v : N), In l its -> In (k, v) l -> k <> [] -> v <> 0) /\
    enum_run_new (S (total_pairs its)) its <> spec_triples its /\
    In (Enumerator_Proofs.ka, 0%nat, 9) (all_triples its) /\
    ~ In (Enumerator_Proofs.ka, 0%nat, 9) (enum_run_new (S (total_pairs its)) its).
Proof. exact @Enumerator_Proofs.empty_key_zero_value_refuted. Qed.
Print Assumptions empty_key_zero_value_refuted.

(* R-merge for postings: the statement-by-statement model of the merger's per-field loop (enumerator, prepareNewTerm, reading every input through the iterator model with its deletions as exclusion, renumbering, remapping location field ids, finishTerm with the 1-hit decision) produces, for ANY admissible encoding of the inputs, exactly the dictionary, the encoded postings lists and the statistics of the merge specification, and never fails *)
Theorem merge_field_correct :
    forall (cm : N) (f : bytes) (insE : list MergePostings_Proofs.InE) (foc : ASeg -> bool),
    (forall (A : ASeg) (dr : list N) (e : bytes -> EncPL),
    In (A, dr, e) insE ->
    MergePostings_Proofs.wf_seg A /\
    (forall t : bytes, In t (o_terms A f) -> MergePostings_Proofs.admissible_enc A f t (e t))) ->
    (forall (A : ASeg) (dr : list N) (e : bytes -> EncPL),
    In (A, dr, e) insE -> foc A = false -> known_field A f = false) ->
    In f (as_fields (fst (merge_spec (MergePostings_Proofs.ins_of insE)))) ->
    valid_mode cm = true ->
    0 < o_count (fst (merge_spec (MergePostings_Proofs.ins_of insE))) ->
    o_count (fst (merge_spec (MergePostings_Proofs.ins_of insE))) < two32 ->
    exists r : FieldResult,
    merge_field cm (o_count (fst (merge_spec (MergePostings_Proofs.ins_of insE))))
    (as_fields (fst (merge_spec (MergePostings_Proofs.ins_of insE))))
    (MergePostings_Proofs.merge_acts f insE foc) = Ok r /\
    fr_dict r =
    map (fun t : bytes => (t, encode_term (MergePostings_Proofs.mslot cm insE) f t))
    (o_terms (fst (merge_spec (MergePostings_Proofs.ins_of insE))) f) /\
    map MergePostings_Proofs.log_view (fr_log r) =
    map
    (fun t : bytes =>
    (t, lenN (o_postings (fst (merge_spec (MergePostings_Proofs.ins_of insE))) f t),
    opt_default 0
    (getChunkSize cm (lenN (o_postings (fst (merge_spec (MergePostings_Proofs.ins_of insE))) f t))
    (o_count (fst (merge_spec (MergePostings_Proofs.ins_of insE))))),
    map (to_eposting (as_fields (fst (merge_spec (MergePostings_Proofs.ins_of insE)))))
    (o_postings (fst (merge_spec (MergePostings_Proofs.ins_of insE))) f t)))
    (o_terms (fst (merge_spec (MergePostings_Proofs.ins_of insE))) f) /\
    fr_docs r = fst (merged_stats (as_docs (fst (merge_spec (MergePostings_Proofs.ins_of insE)))) f) /\
    fr_freqs r = snd (merged_stats (as_docs (fst (merge_spec (MergePostings_Proofs.ins_of insE)))) f).
Proof. exact @MergePostings_Proofs.merge_field_correct. Qed.
Print Assumptions merge_field_correct.

Theorem merge_term_postings :
    forall (cm : N) (f : bytes) (insE : list MergePostings_Proofs.InE) (foc : ASeg -> bool),
    (forall (A : ASeg) (dr : list N) (e : bytes -> EncPL),
    In (A, dr, e) insE ->
    MergePostings_Proofs.wf_seg A /\
    (forall t : bytes, In t (o_terms A f) -> MergePostings_Proofs.admissible_enc A f t (e t))) ->
    (forall (A : ASeg) (dr : list N) (e : bytes -> EncPL),
    In (A, dr, e) insE -> foc A = false -> known_field A f = false) ->
    In f (as_fields (fst (merge_spec (MergePostings_Proofs.ins_of insE)))) ->
    valid_mode cm = true ->
    0 < o_count (fst (merge_spec (MergePostings_Proofs.ins_of insE))) ->
    o_count (fst (merge_spec (MergePostings_Proofs.ins_of insE))) < two32 ->
    forall r : FieldResult,
    merge_field cm (o_count (fst (merge_spec (MergePostings_Proofs.ins_of insE))))
    (as_fields (fst (merge_spec (MergePostings_Proofs.ins_of insE))))
    (MergePostings_Proofs.merge_acts f insE foc) = Ok r ->
    map (fun l : TermLog => (tl_term l, tl_ps l)) (fr_log r) =
    map
    (fun t : bytes =>
    (t,
    map (to_eposting (as_fields (fst (merge_spec (MergePostings_Proofs.ins_of insE)))))
    (o_postings (fst (merge_spec (MergePostings_Proofs.ins_of insE))) f t)))
    (o_terms (fst (merge_spec (MergePostings_Proofs.ins_of insE))) f).
Proof. exact @MergePostings_Proofs.merge_term_postings. Qed.
Print Assumptions merge_term_postings.

(* terms whose documents were all deleted disappear *)
Theorem merge_terms :
    forall (cm : N) (f : bytes) (insE : list MergePostings_Proofs.InE) (foc : ASeg -> bool),
    (forall (A : ASeg) (dr : list N) (e : bytes -> EncPL),
    In (A, dr, e) insE ->
    MergePostings_Proofs.wf_seg A /\
    (forall t : bytes, In t (o_terms A f) -> MergePostings_Proofs.admissible_enc A f t (e t))) ->
    (forall (A : ASeg) (dr : list N) (e : bytes -> EncPL),
    In (A, dr, e) insE -> foc A = false -> known_field A f = false) ->
    In f (as_fields (fst (merge_spec (MergePostings_Proofs.ins_of insE)))) ->
    valid_mode cm = true ->
    0 < o_count (fst (merge_spec (MergePostings_Proofs.ins_of insE))) ->
    o_count (fst (merge_spec (MergePostings_Proofs.ins_of insE))) < two32 ->
    forall r : FieldResult,
    merge_field cm (o_count (fst (merge_spec (MergePostings_Proofs.ins_of insE))))
    (as_fields (fst (merge_spec (MergePostings_Proofs.ins_of insE))))
    (MergePostings_Proofs.merge_acts f insE foc) = Ok r ->
    map fst (fr_dict r) = o_terms (fst (merge_spec (MergePostings_Proofs.ins_of insE))) f.
Proof. exact @MergePostings_Proofs.merge_terms. Qed.
Print Assumptions merge_terms.

(* including which terms are 1-hit encoded and the chunk size the reader will recompute *)
Theorem merge_encoding :
    forall (cm : N) (f : bytes) (insE : list MergePostings_Proofs.InE) (foc : ASeg -> bool),
    (forall (A : ASeg) (dr : list N) (e : bytes -> EncPL),
    In (A, dr, e) insE ->
    MergePostings_Proofs.wf_seg A /\
    (forall t : bytes, In t (o_terms A f) -> MergePostings_Proofs.admissible_enc A f t (e t))) ->
    (forall (A : ASeg) (dr : list N) (e : bytes -> EncPL),
    In (A, dr, e) insE -> foc A = false -> known_field A f = false) ->
    In f (as_fields (fst (merge_spec (MergePostings_Proofs.ins_of insE)))) ->
    valid_mode cm = true ->
    0 < o_count (fst (merge_spec (MergePostings_Proofs.ins_of insE))) ->
    o_count (fst (merge_spec (MergePostings_Proofs.ins_of insE))) < two32 ->
    forall r : FieldResult,
    merge_field cm (o_count (fst (merge_spec (MergePostings_Proofs.ins_of insE))))
    (as_fields (fst (merge_spec (MergePostings_Proofs.ins_of insE))))
    (MergePostings_Proofs.merge_acts f insE foc) = Ok r ->
    fr_dict r =
    map (fun t : bytes => (t, encode_term (MergePostings_Proofs.mslot cm insE) f t))
    (o_terms (fst (merge_spec (MergePostings_Proofs.ins_of insE))) f) /\
    map (fun l : TermLog => (tl_term l, tl_card l, tl_cs l)) (fr_log r) =
    map
    (fun t : bytes =>
    (t, lenN (o_postings (fst (merge_spec (MergePostings_Proofs.ins_of insE))) f t),
    opt_default 0
    (getChunkSize cm (lenN (o_postings (fst (merge_spec (MergePostings_Proofs.ins_of insE))) f t))
    (o_count (fst (merge_spec (MergePostings_Proofs.ins_of insE)))))))
    (o_terms (fst (merge_spec (MergePostings_Proofs.ins_of insE))) f).
Proof. exact @MergePostings_Proofs.merge_encoding. Qed.
Print Assumptions merge_encoding.

(* never an error or panic (in particular never 'see hit with dropped docNum') *)
Theorem merge_field_total :
    forall (cm : N) (f : bytes) (insE : list MergePostings_Proofs.InE) (foc : ASeg -> bool),
    (forall (A : ASeg) (dr : list N) (e : bytes -> EncPL),
    In (A, dr, e) insE ->
    MergePostings_Proofs.wf_seg A /\
    (forall t : bytes, In t (o_terms A f) -> MergePostings_Proofs.admissible_enc A f t (e t))) ->
    (forall (A : ASeg) (dr : list N) (e : bytes -> EncPL),
    In (A, dr, e) insE -> foc A = false -> known_field A f = false) ->
    In f (as_fields (fst (merge_spec (MergePostings_Proofs.ins_of insE)))) ->
    valid_mode cm = true ->
    0 < o_count (fst (merge_spec (MergePostings_Proofs.ins_of insE))) ->
    o_count (fst (merge_spec (MergePostings_Proofs.ins_of insE))) < two32 ->
    exists r : FieldResult,
    merge_field cm (o_count (fst (merge_spec (MergePostings_Proofs.ins_of insE))))
    (as_fields (fst (merge_spec (MergePostings_Proofs.ins_of insE))))
    (MergePostings_Proofs.merge_acts f insE foc) = Ok r.
Proof. exact @MergePostings_Proofs.merge_field_total. Qed.
Print Assumptions merge_field_total.

(* non-vacuity: the hypotheses hold for a concrete two-input merge with a deletion, a 1-hit term and a term that is not 1-hit encoded *)
Example ex_theorem_applies :
    exists r : FieldResult,
    merge_field 1025 (o_count MergePostings_Proofs.ex_M) (as_fields MergePostings_Proofs.ex_M)
    MergePostings_Proofs.ex_acts = Ok r /\
    fr_dict r =
    map
    (fun t : bytes =>
    (t,
    encode_term (MergePostings_Proofs.mslot 1025 MergePostings_Proofs.ex_insE)
    MergePostings_Proofs.exf t)) (o_terms MergePostings_Proofs.ex_M MergePostings_Proofs.exf) /\
    fr_docs r = fst (merged_stats (as_docs MergePostings_Proofs.ex_M) MergePostings_Proofs.exf) /\
    fr_freqs r = snd (merged_stats (as_docs MergePostings_Proofs.ex_M) MergePostings_Proofs.exf).
Proof. exact @MergePostings_Proofs.ex_theorem_applies. Qed.
Print Assumptions ex_theorem_applies.

Example ex_merge_field_spec :
    match
    merge_field 1025 (o_count MergePostings_Proofs.ex_M) (as_fields MergePostings_Proofs.ex_M)
    MergePostings_Proofs.ex_acts
    with
    | Ok r =>
    fr_dict r =
    map
    (fun t : bytes =>
    (t,
    encode_term (MergePostings_Proofs.mslot 1025 MergePostings_Proofs.ex_insE)
    MergePostings_Proofs.exf t)) (o_terms MergePostings_Proofs.ex_M MergePostings_Proofs.exf) /\
    (fr_docs r, fr_freqs r) =
    merged_stats (as_docs MergePostings_Proofs.ex_M) MergePostings_Proofs.exf /\
    merge_no1hit (MergePostings_Proofs.ins_of MergePostings_Proofs.ex_insE) MergePostings_Proofs.ex_M =
    [(MergePostings_Proofs.exf, MergePostings_Proofs.exty)]
    | _ => False
    end.
Proof. exact @MergePostings_Proofs.ex_merge_field_spec. Qed.
Print Assumptions ex_merge_field_spec.

(* R-merge for doc values *)
Theorem merge_doc_values_correct :
    forall (f : bytes) (ins : list (ASeg * list N)) (sel : list (option bool)),
    let M := fst (merge_spec ins) in
    Forall2 (fun (p : ASeg * list N) (s : option bool) => s <> Some true -> dv_entries (fst p) f = []) ins
    sel ->
    0 < o_count M ->
    o_count M <= docDropped ->
    merge_dv (o_count M)
    (map DvWriter_Proofs.in_chunks
    (DvWriter_Proofs.sel_inputs f (combine ins (merge_docnums ins 0)) sel)) =
    Ok
    (if existsb DvWriter_Proofs.is_reader sel
    then Some (dv_chunks (DvWriter_Proofs.nch_of (o_count M)) (dv_entries M f))
    else None).
Proof. exact @DvWriter_Proofs.merge_dv_correct. Qed.
Print Assumptions merge_doc_values_correct.

(* R-merge for stored fields: both paths of the merger (byte copy of whole records when field lists agree and nothing is dropped; re-encoding through visitDocument otherwise), mixed freely over the inputs, produce exactly the stored blocks and offsets of the surviving documents, also when an output block ends inside a source block *)
Theorem merge_stored_correct :
    forall ins : list (ASeg * list N),
    Forall (fun p : ASeg * list N => StoredWriter_Proofs.wf_seg (fst p)) ins ->
    let Mg := fst (merge_spec ins) in
    merge_stored (map StoredWriter_Proofs.seg_input ins) (o_count Mg) =
    Ok (layout_of (StoredWriter_Proofs.seg_docs Mg)).
Proof. exact @StoredWriter_Proofs.merge_stored_correct. Qed.
Print Assumptions merge_stored_correct.

(* the byte-copy path emits the same records as the re-encode path *)
Theorem copy_correct :
    forall (A : ASeg) (n : N) (offs : list N) (c : docCoder),
    StoredWriter_Proofs.wf_seg A ->
    copy_stored_docs (StoredWriter_Proofs.seg_input (A, [])) n offs c =
    (do (_, offs1, c1) <-
    merge_reencode (StoredWriter_Proofs.seg_input (A, [])) (as_fields A) (n, offs, c); 
    Ok (offs1, c1)).
Proof. exact @StoredWriter_Proofs.copy_correct. Qed.
Print Assumptions copy_correct.

(* the k-way merge of the input dictionaries visits every (term, segment) pair once, in sorted order; the model this is proved about is run against the real enumerator *)
Theorem enumerator_script_is_sorted_union :
    forall (its : list vitr) (fuel : nat),
    Forall Enumerator_Proofs.key_sorted its ->
    Forall Enumerator_Proofs.empty_key_nz its ->
    (total_pairs its < fuel)%nat ->
    exists tr : list (gokey * nat * N),
    map Units_Proofs.forget_nil tr = spec_triples its /\
    run_enum_script its (Units_Proofs.cur_next fuel) = Units_Proofs.w_steps tr.
Proof. exact @Units_Proofs.run_enum_script_spec. Qed.
Print Assumptions enumerator_script_is_sorted_union.

(* C17 - Merging is associative and has single-segment identity
   Property theorems only: each statement is given in full and closed by `exact`;
   Print Assumptions follows every theorem.   *)

From Coq Require Import List NArith Bool Sorting Permutation.
From Ice Require Import Enumerator Units.
From IceProofs Require MergeAlgebra_Proofs Sort_Proofs Units_Proofs.
Import ListNotations.
Open Scope N_scope.

(* merging a group first and the rest afterwards = merging everything at once (fields, documents and statistics) *)
Theorem merge_assoc_prefix :
    forall xs ys : list (Spec.ASeg * list N),
    fst (Spec.merge_spec ((fst (Spec.merge_spec xs), []) :: ys)) = fst (Spec.merge_spec (xs ++ ys)).
Proof. exact @MergeAlgebra_Proofs.merge_assoc_prefix. Qed.
Print Assumptions merge_assoc_prefix.

(* the same for a group in the middle: every order-preserving grouping follows by iteration *)
Theorem merge_assoc_general :
    forall xs ys zs : list (Spec.ASeg * list N),
    fst (Spec.merge_spec (xs ++ (fst (Spec.merge_spec ys), []) :: zs)) =
    fst (Spec.merge_spec (xs ++ ys ++ zs)).
Proof. exact @MergeAlgebra_Proofs.merge_assoc_general. Qed.
Print Assumptions merge_assoc_general.

(* deletions applied after a merge, translated through the reported table, = deletions applied in the merge *)
Theorem merge_translate_single :
    forall (A : Spec.ASeg) (dr : list N),
    Forall (fun d : N => d < Spec.o_count A) dr ->
    let M := fst (Spec.merge_spec [(A, [])]) in
    let tbl := hd [] (snd (Spec.merge_spec [(A, [])])) in
    Spec.as_docs (fst (Spec.merge_spec [(M, MergeAlgebra_Proofs.translate_drops tbl dr)])) =
    Spec.as_docs (fst (Spec.merge_spec [(A, dr)])).
Proof. exact @MergeAlgebra_Proofs.merge_translate_single. Qed.
Print Assumptions merge_translate_single.

(* single-segment identity: fields and documents unchanged, identity table, statistics in the merged flavour *)
Theorem merge_identity :
    forall A : Spec.ASeg,
    MergeAlgebra_Proofs.canonical_fields (Spec.as_fields A) ->
    Spec.as_fields (fst (Spec.merge_spec [(A, [])])) = Spec.as_fields A /\
    Spec.as_docs (fst (Spec.merge_spec [(A, [])])) = Spec.as_docs A /\
    Spec.as_stats (fst (Spec.merge_spec [(A, [])])) =
    map (fun f : bytes => (f, Spec.merged_stats (Spec.as_docs A) f)) (Spec.as_fields A) /\
    snd (Spec.merge_spec [(A, [])]) = [map N.of_nat (seq 0 (length (Spec.as_docs A)))].
Proof. exact @MergeAlgebra_Proofs.merge_identity. Qed.
Print Assumptions merge_identity.

(* a merged segment is a fixed point of the single-segment merge, statistics included *)
Theorem merge_identity_merged :
    forall ins : list (Spec.ASeg * list N),
    fst (Spec.merge_spec [(fst (Spec.merge_spec ins), [])]) = fst (Spec.merge_spec ins).
Proof. exact @MergeAlgebra_Proofs.merge_identity_merged. Qed.
Print Assumptions merge_identity_merged.

(* statistics of a merge are additive over the surviving documents *)
Theorem merge_stats_additive :
    forall (docs1 docs2 : list Spec.ADoc) (f : bytes),
    Spec.merged_stats (docs1 ++ docs2) f =
    (fst (Spec.merged_stats docs1 f) + fst (Spec.merged_stats docs2 f),
    snd (Spec.merged_stats docs1 f) + snd (Spec.merged_stats docs2 f)).
Proof. exact @MergeAlgebra_Proofs.merge_stats_additive. Qed.
Print Assumptions merge_stats_additive.

(* non-vacuity: three segments, both bracketings *)
Example merge_bracketings_agree :
    let all :=
    fst
    (Spec.merge_spec
    [(MergeAlgebra_Proofs.exm_A, [1]); (MergeAlgebra_Proofs.exm_B, []);
    (MergeAlgebra_Proofs.exm_C, [0])]) in
    fst
    (Spec.merge_spec
    [(fst (Spec.merge_spec [(MergeAlgebra_Proofs.exm_A, [1]); (MergeAlgebra_Proofs.exm_B, [])]), []);
    (MergeAlgebra_Proofs.exm_C, [0])]) = all /\
    fst
    (Spec.merge_spec
    [(MergeAlgebra_Proofs.exm_A, [1]);
    (fst (Spec.merge_spec [(MergeAlgebra_Proofs.exm_B, []); (MergeAlgebra_Proofs.exm_C, [0])]), [])]) =
    all /\ Spec.as_fields all = [Spec.id_name; [97]; [98]; [99]] /\ length (Spec.as_docs all) = 5%nat.
Proof. exact @MergeAlgebra_Proofs.merge_bracketings_agree. Qed.
Print Assumptions merge_bracketings_agree.

(* the transcript of Current/Next on the enumerator model - the one compared with the real enumerator over real vellum FSTs on every check - is the sorted (key, input, value) list of all inputs, up to nil versus empty for the empty key *)
Theorem enumerator_script_is_sorted_union :
    forall (its : list vitr) (fuel : nat),
    Forall Enumerator_Proofs.key_sorted its ->
    Forall Enumerator_Proofs.empty_key_nz its ->
    (total_pairs its < fuel)%nat ->
    exists tr : list (gokey * nat * N),
    map Units_Proofs.forget_nil tr = spec_triples its /\
    run_enum_script its (Units_Proofs.cur_next fuel) = Units_Proofs.w_steps tr.
Proof. exact @Units_Proofs.run_enum_script_spec. Qed.
Print Assumptions enumerator_script_is_sorted_union.

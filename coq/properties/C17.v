(* C17 - Merging is associative and has single-segment identity
   Property theorems only: each statement is given in full and closed by `exact`;
   Print Assumptions follows every theorem.   *)

From Coq Require Import List NArith Bool Sorting Permutation.
From Ice Require Import Base Spec.
From IceProofs Require MergeAlgebra_Proofs Sort_Proofs.
Import ListNotations.
Open Scope N_scope.

(* merging a group first and the rest afterwards = merging everything at once (fields, documents and statistics) *)
Theorem merge_assoc_prefix :
    forall xs ys : list (ASeg * list N),
    fst (merge_spec ((fst (merge_spec xs), []) :: ys)) = fst (merge_spec (xs ++ ys)).
Proof. exact MergeAlgebra_Proofs.merge_assoc_prefix. Qed.
Print Assumptions merge_assoc_prefix.

(* the same for a group in the middle: every order-preserving grouping follows by iteration *)
Theorem merge_assoc_general :
    forall xs ys zs : list (ASeg * list N),
    fst (merge_spec (xs ++ (fst (merge_spec ys), []) :: zs)) = fst (merge_spec (xs ++ ys ++ zs)).
Proof. exact MergeAlgebra_Proofs.merge_assoc_general. Qed.
Print Assumptions merge_assoc_general.

(* deletions applied after a merge, translated through the reported table, = deletions applied in the merge *)
Theorem merge_translate_single :
    forall (A : ASeg) (dr : list N),
    Forall (fun d : N => d < o_count A) dr ->
    let M := fst (merge_spec [(A, [])]) in
    let tbl := hd [] (snd (merge_spec [(A, [])])) in
    as_docs (fst (merge_spec [(M, MergeAlgebra_Proofs.translate_drops tbl dr)])) =
    as_docs (fst (merge_spec [(A, dr)])).
Proof. exact MergeAlgebra_Proofs.merge_translate_single. Qed.
Print Assumptions merge_translate_single.

(* single-segment identity: fields and documents unchanged, identity table, statistics in the merged flavour *)
Theorem merge_identity :
    forall A : ASeg,
    MergeAlgebra_Proofs.canonical_fields (as_fields A) ->
    as_fields (fst (merge_spec [(A, [])])) = as_fields A /\
    as_docs (fst (merge_spec [(A, [])])) = as_docs A /\
    as_stats (fst (merge_spec [(A, [])])) =
    map (fun f : bytes => (f, merged_stats (as_docs A) f)) (as_fields A) /\
    snd (merge_spec [(A, [])]) = [map N.of_nat (seq 0 (length (as_docs A)))].
Proof. exact MergeAlgebra_Proofs.merge_identity. Qed.
Print Assumptions merge_identity.

(* a merged segment is a fixed point of the single-segment merge, statistics included *)
Theorem merge_identity_merged :
    forall ins : list (ASeg * list N),
    fst (merge_spec [(fst (merge_spec ins), [])]) = fst (merge_spec ins).
Proof. exact MergeAlgebra_Proofs.merge_identity_merged. Qed.
Print Assumptions merge_identity_merged.

(* statistics of a merge are additive over the surviving documents *)
Theorem merge_stats_additive :
    forall (docs1 docs2 : list ADoc) (f : bytes),
    merged_stats (docs1 ++ docs2) f =
    (fst (merged_stats docs1 f) + fst (merged_stats docs2 f),
    snd (merged_stats docs1 f) + snd (merged_stats docs2 f)).
Proof. exact MergeAlgebra_Proofs.merge_stats_additive. Qed.
Print Assumptions merge_stats_additive.

(* non-vacuity: three segments, both bracketings *)
Example merge_bracketings_agree :
    let all :=
    fst
    (merge_spec
    [(MergeAlgebra_Proofs.exm_A, [1]); (MergeAlgebra_Proofs.exm_B, []);
    (MergeAlgebra_Proofs.exm_C, [0])]) in
    fst
    (merge_spec
    [(fst (merge_spec [(MergeAlgebra_Proofs.exm_A, [1]); (MergeAlgebra_Proofs.exm_B, [])]), []);
    (MergeAlgebra_Proofs.exm_C, [0])]) = all /\
    fst
    (merge_spec
    [(MergeAlgebra_Proofs.exm_A, [1]);
    (fst (merge_spec [(MergeAlgebra_Proofs.exm_B, []); (MergeAlgebra_Proofs.exm_C, [0])]), [])]) =
    all /\ as_fields all = [id_name; [97]; [98]; [99]] /\ length (as_docs all) = 5%nat.
Proof. exact MergeAlgebra_Proofs.merge_bracketings_agree. Qed.
Print Assumptions merge_bracketings_agree.

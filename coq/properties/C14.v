(* C14 - Builder output depends only on its input, not on history or concurrency
   Property theorems only: each statement is given in full and closed by `exact`;
   Print Assumptions follows every theorem.  abs_of_batch is a function of the batch and the norm function only: the model has no pool and no map; what remains to show is that the places where Go's map iteration order enters cannot matter. *)

From Coq Require Import List NArith Bool Sorting Permutation.
From Ice Require Import Base Spec Postings Builder Pool IntCoder DvWriter Units.
From IceProofs Require Immut_Proofs Build_Proofs Builder_Proofs Pool_Proofs Units_Proofs.
Import ListNotations.
Open Scope N_scope.

(* per-document entries are keyed by distinct postings ids: any visiting order of the Go map range gives the same per-term lists *)
Theorem apply_doc_order_irrelevant :
    forall (E : Type) (st : list (N * list E)) (es es' : list (N * E)),
    NoDup (map fst es) ->
    Permutation es es' ->
    forall k : N,
    Immut_Proofs.lookup (fold_left Immut_Proofs.upd es' st) k =
    Immut_Proofs.lookup (fold_left Immut_Proofs.upd es st) k.
Proof. exact @Immut_Proofs.apply_doc_order_irrelevant. Qed.
Print Assumptions apply_doc_order_irrelevant.

(* the roll-up depends only on the sequence of input terms *)
Theorem roll_up_instance_order_only :
    forall (fname : bytes) (i1 i2 : list Field),
    flat_map' f_terms i1 = flat_map' f_terms i2 -> roll_up fname i1 = roll_up fname i2.
Proof. exact @Immut_Proofs.roll_up_instance_order_only. Qed.
Print Assumptions roll_up_instance_order_only.

(* terms are emitted in sorted order whatever order they were inserted in *)
Theorem roll_up_keys_sorted :
    forall (fname : bytes) (insts : list Field),
    Sort_Proofs.strict_sorted_bytes (map fst (roll_up fname insts)).
Proof. exact @Build_Proofs.roll_up_keys_sorted. Qed.
Print Assumptions roll_up_keys_sorted.

(* every posting is determined by the batch alone *)
Theorem build_is_function_of_batch :
    forall (norm : bytes -> N -> N) (b : Batch) (f t : bytes),
    o_postings (abs_of_batch norm b) f t =
    flat_map'
    (fun '(n, doc) =>
    match Build_Proofs.matching_terms f t doc with
    | [] => []
    | _ :: _ =>
    [(n,
    (Build_Proofs.implied_freq f t doc,
    (Build_Proofs.implied_norm norm f doc, Build_Proofs.implied_locs f t doc)))]
    end) (number_from 0 b).
Proof. exact @Build_Proofs.build_postings. Qed.
Print Assumptions build_is_function_of_batch.

(* the builder model's result does not depend on the order in which Go's map ranges visit the terms of a document (any order, possibly different on every iteration) *)
Theorem build_perm_independent :
    forall (norm : bytes -> N -> N)
    (perm1 perm2 : N -> nat -> list (bytes * TokFreq) -> list (bytes * TokFreq)) 
    (b : Batch),
    (forall (n : N) (q : nat) (l : list (bytes * TokFreq)), Permutation (perm1 n q l) l) ->
    (forall (n : N) (q : nat) (l : list (bytes * TokFreq)), Permutation (perm2 n q l) l) ->
    valid_batch b = true -> build_postings_model norm perm1 b = build_postings_model norm perm2 b.
Proof. exact @Builder_Proofs.build_perm_independent. Qed.
Print Assumptions build_perm_independent.

(* ... because it equals the specification, which has no map *)
Theorem builder_model_equals_spec :
    forall (norm : bytes -> N -> N) (perm : N -> nat -> list (bytes * TokFreq) -> list (bytes * TokFreq)),
    (forall (n : N) (q : nat) (l : list (bytes * TokFreq)), Permutation (perm n q l) l) ->
    forall b : Batch,
    valid_batch b = true ->
    build_postings_model norm perm b =
    map
    (fun f : bytes =>
    (f,
    map
    (fun t : bytes =>
    (t, map (to_eposting (define_fields b)) (o_postings (abs_of_batch norm b) f t)))
    (o_terms (abs_of_batch norm b) f))) (define_fields b).
Proof. exact @Builder_Proofs.R_build_postings. Qed.
Print Assumptions builder_model_equals_spec.

(* history independence: a build that starts from ANY reachable state of the pooled builder object (Go slice lengths, capacities and stale backing contents left by any earlier builds and reset()) computes exactly what a build from a fresh object computes, and no re-slice panics *)
Theorem build_pool_independent :
    forall (norm : bytes -> N -> N) (perm : N -> nat -> list (bytes * TokFreq) -> list (bytes * TokFreq))
    (b : Batch),
    (forall (n : N) (q : nat) (l : list (bytes * TokFreq)), Permutation (perm n q l) l) ->
    forall st : pstate, Reach st -> build_from st norm perm b = Ok (build_postings_model norm perm b).
Proof. exact @Pool_Proofs.build_pool_independent. Qed.
Print Assumptions build_pool_independent.

(* every state reachable through successful builds followed by reset() is clean *)
Theorem Reach_clean :
    forall st : pstate, Reach st -> Clean st.
Proof. exact @Pool_Proofs.Reach_clean. Qed.
Print Assumptions Reach_clean.

Theorem reset_clean :
    forall st : pstate, Pool_Proofs.Tidy st -> Clean (pool_reset st).
Proof. exact @Pool_Proofs.reset_clean. Qed.
Print Assumptions reset_clean.

(* from a clean state every re-slice of pooled state shows what a fresh allocation shows *)
Theorem views_equal :
    forall st : pstate,
    Clean st ->
    (forall n : nat, visible (take_include_dv st n) = visible (take_include_dv pool_fresh n)) /\
    (forall n : nat, visible (take_postings st n) = visible (take_postings pool_fresh n)) /\
    (forall tot : nat,
    visible (take_backing (pFNBacking st) tot) = visible (take_backing (pFNBacking pool_fresh) tot)) /\
    (forall tot : nat,
    visible (take_backing (pLocsBacking st) tot) = visible (take_backing (pLocsBacking pool_fresh) tot)) /\
    (forall (n : nat) (counts : list nat),
    length counts = n ->
    rmap visible (take_windows (pFreqNorms st) n counts) =
    rmap visible (take_windows (pFreqNorms pool_fresh) n counts)) /\
    (forall (n : nat) (counts : list nat),
    length counts = n ->
    rmap visible (take_windows (pLocs st) n counts) =
    rmap visible (take_windows (pLocs pool_fresh) n counts)) /\
    (forall ops : list (sl_op (list (bytes * nat))),
    rmap visible (sl_run [] ops (pDicts st)) = rmap visible (sl_run [] ops (pDicts pool_fresh))) /\
    (forall ops : list dk_op,
    rmap dk_view (dk_run ops (pDictKeys st)) = rmap dk_view (dk_run ops (pDictKeys pool_fresh))) /\
    (forall ops : list (sl_op nat),
    rmap visible (grow_counters ops (pNumTerms st)) =
    rmap visible (grow_counters ops (pNumTerms pool_fresh))) /\
    (forall ops : list (sl_op nat),
    rmap visible (grow_counters ops (pNumLocs st)) =
    rmap visible (grow_counters ops (pNumLocs pool_fresh))).
Proof. exact @Pool_Proofs.views_equal. Qed.
Print Assumptions views_equal.

(* reset() alone does not clean arbitrary states (range loops stop at the length): the invariant over reachable states is needed *)
Theorem reset_not_clean_in_general :
    exists st : pstate, ~ Clean (pool_reset st).
Proof. exact @Pool_Proofs.reset_not_clean_in_general. Qed.
Print Assumptions reset_not_clean_in_general.

(* regression of the method: a reset() that forgets to clear IncludeDocValues is distinguished by a witness *)
Theorem reset_bad1_detected :
    exists (st : pstate) (n : nat),
    build_step pool_fresh st /\
    visible (take_include_dv (pool_reset_bad1 st) n) <> visible (take_include_dv pool_fresh n).
Proof. exact @Pool_Proofs.reset_bad1_detected. Qed.
Print Assumptions reset_bad1_detected.

Theorem reset_bad2_detected :
    exists (st : pstate) (n : nat),
    build_step pool_fresh st /\
    visible (take_postings (pool_reset_bad2 st) n) <> visible (take_postings pool_fresh n).
Proof. exact @Pool_Proofs.reset_bad2_detected. Qed.
Print Assumptions reset_bad2_detected.

Example build_from_example :
    build_from (pool_reset Pool_Proofs.st_big) Builder_Proofs.exb_norm Builder_Proofs.perm_id
    Builder_Proofs.exb_batch = Ok Builder_Proofs.exb_result /\
    build_from (pool_reset Pool_Proofs.st_big) Builder_Proofs.exb_norm Builder_Proofs.perm_rev
    Builder_Proofs.exb_batch = Ok Builder_Proofs.exb_result /\
    build_from pool_fresh Builder_Proofs.exb_norm Builder_Proofs.perm_id Builder_Proofs.exb_batch =
    Ok Builder_Proofs.exb_result /\
    build_from (pool_reset_bad2 Pool_Proofs.st_big) Builder_Proofs.exb_norm Builder_Proofs.perm_id
    Builder_Proofs.exb_batch <> Ok Builder_Proofs.exb_result.
Proof. exact @Pool_Proofs.build_from_example. Qed.
Print Assumptions build_from_example.

(* whatever a chunkedIntCoder went through before, Reset followed by SetChunkSize leaves it in the state of a new coder: the rest of any script gives the same transcript (the coder-level form of independence from history; this model is run against the real coder on every check) *)
Theorem intcoder_reuse_like_new :
    forall (c c' : coder) (cs m : N) (ops : list cop),
    coder_new cs m = Ok c' ->
    run_intcoder (Some c) (CReset :: CSetChunkSize cs m :: ops) = 0 :: 0 :: run_intcoder (Some c') ops.
Proof. exact @Units_Proofs.run_intcoder_reset_setChunkSize. Qed.
Print Assumptions intcoder_reuse_like_new.

(* the same for the doc-value coder reused from field to field: after Reset the rest of any script behaves as on a fresh coder *)
Theorem contentcoder_reuse_like_new :
    forall (cs max : N) (c0 c : Coder) (ops : list cop),
    cc_new cs max = Ok c0 ->
    Units_Proofs.cc_shape cs (length (cc_chunkLens c0)) c ->
    run_contentcoder (Some c) (CReset :: ops) = 0 :: run_contentcoder (Some c0) ops.
Proof. exact @Units_Proofs.run_contentcoder_reset. Qed.
Print Assumptions contentcoder_reuse_like_new.

(* new; Add...; Close; Write; Reset gives back exactly the fresh coder *)
Theorem cc_reuse_like_fresh :
    forall (cs max : N) (c0 c1 c2 : Coder) (es : list (N * bytes)),
    cc_new cs max = Ok c0 ->
    cc_adds c0 es = Ok c1 -> cc_close c1 = Ok c2 -> cc_reset (cc_after_write c2) = c0.
Proof. exact @Units_Proofs.cc_reuse_like_fresh. Qed.
Print Assumptions cc_reuse_like_fresh.

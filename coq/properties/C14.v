(* C14 - Builder output depends only on its input, not on history or concurrency
   Property theorems only: each statement is given in full and closed by `exact`;
   Print Assumptions follows every theorem.  abs_of_batch is a function of the batch and the norm function only: the model has no pool and no map; what remains to show is that the places where Go's map iteration order enters cannot matter. *)

From Coq Require Import List NArith Bool Sorting Permutation.
From Ice Require Import Base Spec Postings Builder.
From IceProofs Require Immut_Proofs Build_Proofs Builder_Proofs.
Import ListNotations.
Open Scope N_scope.

(* per-document entries are keyed by distinct postings ids: any visiting order of the Go map range gives the same per-term lists *)
Theorem apply_doc_order_irrelevant :
    forall (E : Type) (st : list (N * list E)) (es es' : list (N * E)),
    NoDup (map fst es) ->
    Permutation es es' ->
    forall k : N,
    Immut_Proofs.lookup (fold_left Immut_Proofs.upd es' st) k =
    Immut_Proofs.lookup (fold_left Immut_Proofs.upd es st) k.
Proof. exact @Immut_Proofs.apply_doc_order_irrelevant. Qed.
Print Assumptions apply_doc_order_irrelevant.

(* the roll-up depends only on the sequence of input terms *)
Theorem roll_up_instance_order_only :
    forall (fname : bytes) (i1 i2 : list Field),
    flat_map' f_terms i1 = flat_map' f_terms i2 -> roll_up fname i1 = roll_up fname i2.
Proof. exact @Immut_Proofs.roll_up_instance_order_only. Qed.
Print Assumptions roll_up_instance_order_only.

(* terms are emitted in sorted order whatever order they were inserted in *)
Theorem roll_up_keys_sorted :
    forall (fname : bytes) (insts : list Field),
    Sort_Proofs.strict_sorted_bytes (map fst (roll_up fname insts)).
Proof. exact @Build_Proofs.roll_up_keys_sorted. Qed.
Print Assumptions roll_up_keys_sorted.

(* every posting is determined by the batch alone *)
Theorem build_is_function_of_batch :
    forall (norm : bytes -> N -> N) (b : Batch) (f t : bytes),
    o_postings (abs_of_batch norm b) f t =
    flat_map'
    (fun '(n, doc) =>
    match Build_Proofs.matching_terms f t doc with
    | [] => []
    | _ :: _ =>
    [(n,
    (Build_Proofs.implied_freq f t doc,
    (Build_Proofs.implied_norm norm f doc, Build_Proofs.implied_locs f t doc)))]
    end) (number_from 0 b).
Proof. exact @Build_Proofs.build_postings. Qed.
Print Assumptions build_is_function_of_batch.

(* the builder model's result does not depend on the order in which Go's map ranges visit the terms of a document (any order, possibly different on every iteration) *)
Theorem build_perm_independent :
    forall (norm : bytes -> N -> N)
    (perm1 perm2 : N -> nat -> list (bytes * TokFreq) -> list (bytes * TokFreq)) 
    (b : Batch),
    (forall (n : N) (q : nat) (l : list (bytes * TokFreq)), Permutation (perm1 n q l) l) ->
    (forall (n : N) (q : nat) (l : list (bytes * TokFreq)), Permutation (perm2 n q l) l) ->
    valid_batch b = true -> build_postings_model norm perm1 b = build_postings_model norm perm2 b.
Proof. exact @Builder_Proofs.build_perm_independent. Qed.
Print Assumptions build_perm_independent.

(* ... because it equals the specification, which has no map *)
Theorem builder_model_equals_spec :
    forall (norm : bytes -> N -> N) (perm : N -> nat -> list (bytes * TokFreq) -> list (bytes * TokFreq)),
    (forall (n : N) (q : nat) (l : list (bytes * TokFreq)), Permutation (perm n q l) l) ->
    forall b : Batch,
    valid_batch b = true ->
    build_postings_model norm perm b =
    map
    (fun f : bytes =>
    (f,
    map
    (fun t : bytes =>
    (t, map (to_eposting (define_fields b)) (o_postings (abs_of_batch norm b) f t)))
    (o_terms (abs_of_batch norm b) f))) (define_fields b).
Proof. exact @Builder_Proofs.R_build_postings. Qed.
Print Assumptions builder_model_equals_spec.

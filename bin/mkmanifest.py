#!/usr/bin/env python3
"""Writes MANIFEST.json from bin/propdefs.py."""
import json, os, sys, subprocess
ROOT = os.path.dirname(os.path.dirname(os.path.abspath(__file__)))
sys.path.insert(0, os.path.join(ROOT, "bin"))
from propdefs import PROPS, TRUSTED_BASE, NOT_APPLICABLE
hooks = subprocess.run(["git", "-C", "/repo", "log", "--format=%H %s"], stdout=subprocess.PIPE, text=True).stdout.splitlines()
hook_commits = [l.split()[0] for l in hooks if l.split(" ", 1)[1].startswith("verif:")]
m = {
 "version": 1,
 "setup_cmd": "bin/setup",
 "hooks": {
  "guard": "verif",
  "enable": "go build -tags verif (the harness module replaces github.com/blugelabs/ice/v2 with /repo); the only hook file is /repo/verif_hooks.go",
  "baseline_off_cmd": "cd /repo && GOFLAGS=-mod=mod go test -vet=off -count=1 -timeout 25m ./...",
  "source_commits": hook_commits,
  "add_only": True,
 },
 "engines": [
  {"name": "coq-model", "path": "coq", "serves_properties": sorted(PROPS), "kind_free_text": "Coq 8.16.1 development: specification, algorithmic models, theorems (properties/*.v), extracted runner"},
  {"name": "translator", "path": "translator", "serves_properties": sorted(p for p in PROPS if PROPS[p].get("gentie")), "kind_free_text": "go/ast -> Gallina translator; Generated.v is re-proved against the hand model (coq/gentie) on every run"},
  {"name": "harness", "path": "harness", "serves_properties": sorted(PROPS), "kind_free_text": "Go correspondence harness driving the real package and the frozen reference copy"},
 ],
 "checks": [],
 "not_applicable": NOT_APPLICABLE,
 "notes": "bin/check <ID> quick|thorough; VERIF_SEED and VERIF_TIER are honoured. Known findings: known_findings.txt. Design: DESIGN.md.",
}
for pid in sorted(PROPS):
    P = PROPS[pid]
    m["checks"].append({
     "property_id": pid,
     "quick_cmd": "bin/check %s quick" % pid,
     "thorough_cmd": "bin/check %s thorough" % pid,
     "evidence_file": "/verif/evidence/%s.json" % pid,
     "replay_cmd_template": "bin/check %s --replay {path}" % pid,
     "engine": "coq-model",
     "level_claimed": {"category": P["level"], "text": P["explanation"], "design_ref": "DESIGN.md section 5, " + pid},
     "level_note": P.get("note", "Theorems are about the Coq model; the model is tied to /repo by the translator (regenerated, re-proved) and by differential execution of the same scenarios. Trusted: " + "; ".join(TRUSTED_BASE[:3])),
     "technique": P.get("technique", "machine-checked proof in Coq 8.16 over an executable model + correspondence check against /repo"),
    })
json.dump(m, open(os.path.join(ROOT, "MANIFEST.json"), "w"), indent=1)
print("wrote MANIFEST.json with", len(m["checks"]), "checks")

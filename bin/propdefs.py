"""Per-property metadata used by bin/check: claimed level, explanation, trusted base."""

TRUSTED_BASE = [
    "Coq 8.16.1 kernel (coqc full .vo build; coqchk in the thorough tier); vm_compute for the in-Coq sample of the correspondence and reflective obligations; native_compute is not used",
    "no axioms declared by this development; Print Assumptions output of every property theorem is parsed on each run and listed under axioms_reported_by_print_assumptions",
    "extraction to OCaml 4.13.1 of Run.run_flat with ExtrOcamlBasic only (its Extract Inductive directives: bool, option, unit, list, prod, sumbool, sumor map to the OCaml types; N/positive stay Coq inductives) plus coq/extract/driver.ml (decimal I/O)",
    "the Go correspondence harness /verif/harness (generators, scenario interpreter over the public segment API, flat transcript encoder) and the Gallina decoder of the same flat format in Run.v",
    "the translator /verif/translator (go/ast -> Gallina) for constants, pure functions, lock skeletons and shared-write footprints",
    "modelled, not verified: zstd, roaring and vellum internals, bufio/bytes/sync/encoding-binary/hash-crc32 from the Go standard library, the Go runtime",
]

ASSUMPTIONS = [
    "input contract of the property list: norms are positive finite float32; term frequency >= number of locations; location fields are empty or named in the batch; no 0xff byte in doc-value terms; document numbers below 2^31",
    "the model is tied to /repo by differential execution on generated scenarios (not by a proof about Go semantics)",
]

def _p(level, explanation, **kw):
    d = {"level": level, "explanation": explanation}
    d.update(kw)
    return d

PROPS = {
    "C01": _p("proof", "Theorems (properties/C01.v) characterise what a batch implies (abs_of_batch): field list, ascending postings, summed frequencies, norm of the summed length, locations in input order. The correspondence check builds random batches with the real ice in chunk modes 1-5/1024/1025 and compares every API answer with the model."),
    "C02": _p("proof", "Theorems (properties/C02.v) about merge_spec: the merged abstract segment is exactly the surviving documents in (segment, document) order with the union field list. The correspondence check merges real segments (built and previously merged) and compares every API answer of the result with the model of the survivors."),
    "C03": _p("proof", "Theorems (properties/C03.v) about the old-to-new tables of merge_spec: shape, dropped sentinel, consecutive numbering, count, content. The correspondence check compares DocumentNumbers() and Count() of real merges with the model, incl. zero-document inputs and zero survivors."),
    "C04": _p("proof", "Theorems on the byte-exact footer/CRC model (round trip) and correspondence: every generated segment is dumped, persisted, loaded from memory and from a file, re-persisted; all dumps must equal the model's."),
    "C05": _p("proof", "Theorem iter_refines: the L1 iterator model (chunked varint streams, Next/Advance with sameChunkNexts, exclusion path) run over any encoded postings list returns exactly the specification cursor's answers for every op sequence. The correspondence check drives real iterators with random exclusions, flags, reuse and op sequences."),
    "C06": _p("proof", "Theorems on the stored-record model (any buffer capacity, clamped look-ahead) and the spec of VisitStoredFields; correspondence with adversarial visiting orders over several 128-document blocks."),
    "C07": _p("proof", "Theorems on doc-value term splitting and the reader cache invariant; correspondence over field subsets and visiting orders incl. re-entering 1024-document chunks."),
    "C08": _p("proof", "Theorems on the dictionary specification (sorted, duplicate free, counts = posting counts, Contains = membership) and the scratch-list model; correspondence with ranges and prefix automata over built, loaded and merged segments."),
    "C13": _p("proof", "The reuse quantifiers (any old object) are inside the iterator, dictionary and doc-value theorems; the correspondence check replays lookup histories reusing objects across terms, encodings and flags against the model, which has no notion of reuse."),
    "C16": _p("proof", "Theorems on built and merged statistics (additivity, equality of both flavours under the length precondition, zero for unknown fields); correspondence on every field of built, merged and reloaded segments."),
    "C11": _p("proof", "Theorems (properties/C11.v) on the byte-exact footer model: CRC-32 update is compositional, the last four bytes written by Segment.WriteTo and by the merger are the CRC-32 of all preceding bytes, parseFooter recovers the footer fields, re-persisting reproduces the file. The correspondence check hands the real bytes of every written file to the Coq model, which parses the footer and recomputes the CRC; loaded segments are persisted again and compared byte for byte."),
    "C17": _p("proof", "Theorems (properties/C17.v) on merge_spec: associativity for every order-preserving grouping (full equality of fields, documents and statistics), deletions translated through the reported tables, single-segment identity and fixed point. The correspondence check merges real segments flat and in several bracketings (deletions inside or translated through DocumentNumbers()), requires all dumps identical to each other and to the model."),
    "C18": _p("proof", "Theorem docsmatching_union: o_docsmatching is exactly the sorted union of the listed terms' postings, unknown entries contribute nothing; correspondence with mixed/unknown/repeated lists."),
}
NOT_APPLICABLE = []

#!/usr/bin/env python3
"""Generates coq/properties/<ID>.v from the table in coq/properties/TABLE.json:
each listed lemma of a proofs module is restated in full (as printed by Check)
and closed by `exact`, with Print Assumptions beneath it.  The generated files
are committed; this script is only a convenience for (re)writing them."""
import json, os, re, subprocess, sys
ROOT = os.path.dirname(os.path.dirname(os.path.abspath(__file__)))
COQ = os.path.join(ROOT, "coq")
table = json.load(open(os.path.join(COQ, "properties", "TABLE.json")))
only = sys.argv[1:]
for pid, spec in table.items():
    if only and pid not in only:
        continue
    mods = spec["modules"]
    header = "From Coq Require Import List NArith Bool Sorting Permutation.\nFrom Ice Require Import %s.\nFrom IceProofs Require %s.\nImport ListNotations.\nOpen Scope N_scope.\n" % (
        " ".join(spec.get("theories", ["Base", "Spec"])), " ".join(mods))
    out = ["(* %s - %s\n   Property theorems only: each statement is given in full and closed by `exact`;\n   Print Assumptions follows every theorem.  %s *)\n" % (pid, spec["title"], spec.get("note", "")), header]
    for item in spec["theorems"]:
        mod, name = item["from"].split(".", 1)
        newname = item.get("as", name.split(".")[-1])
        q = header + "Set Printing Width 110.\nSet Printing Depth 1000.\nCheck @%s.%s.\n" % (mod, name)
        p = subprocess.run(["coqtop", "-Q", "theories", "Ice", "-Q", "proofs", "IceProofs", "-quiet"], input=q, cwd=COQ,
                           stdout=subprocess.PIPE, stderr=subprocess.PIPE, text=True)
        m = re.search(r"@?" + re.escape(mod + "." + name) + r"\s*:\s*(.*?)\n\s*\n", p.stdout + "\n\n", re.S)
        if not m:
            print("cannot Check", mod, name, p.stdout[-500:], p.stderr[-500:])
            sys.exit(1)
        ty = m.group(1).strip()
        ty = re.sub(r"\n\s*", "\n    ", ty)
        if item.get("comment"):
            out.append("(* %s *)" % item["comment"])
        kind = "Example" if item.get("example") else "Theorem"
        out.append("%s %s :\n    %s.\nProof. exact @%s.%s. Qed.\nPrint Assumptions %s.\n" % (kind, newname, ty, mod, name, newname))
    open(os.path.join(COQ, "properties", pid + ".v"), "w").write("\n".join(out))
    print("wrote", pid)

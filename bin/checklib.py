"""Shared machinery of bin/check (see bin/check for the overall flow)."""
import json, os, subprocess, sys, time, shutil, re, glob

ROOT = os.path.dirname(os.path.dirname(os.path.abspath(__file__)))
REPO = os.environ.get("VERIF_REPO", "/repo")
BUILD = os.path.join(ROOT, "build")
COQ = os.path.join(ROOT, "coq")
GOENV = dict(os.environ, GOFLAGS="-mod=mod", GOPROXY="off", GOSUMDB="off", GOTOOLCHAIN="local",
             VERIF_GOLDEN_DIR=os.path.join(ROOT, "corpus", "golden"),
             CGO_ENABLED=os.environ.get("CGO_ENABLED", "1"))

sys.path.insert(0, os.path.join(ROOT, "bin"))
from propdefs import PROPS, TRUSTED_BASE, ASSUMPTIONS


def sh(cmd, cwd=None, env=None, timeout=3600, stdin=None):
    p = subprocess.run(cmd, cwd=cwd, env=env, timeout=timeout, stdin=stdin,
                       stdout=subprocess.PIPE, stderr=subprocess.STDOUT, text=True)
    return p.returncode, p.stdout


def infra_fail(msg, out=""):
    print("CHECK-ERROR: " + msg)
    if out:
        print(out[-4000:])
    sys.exit(2)


# ---------------------------------------------------------------------------
# building blocks
# ---------------------------------------------------------------------------
def coq_build():
    """(Re)build the Coq development; incremental, a no-op after setup."""
    if not os.path.exists(os.path.join(COQ, "Makefile")):
        rc, out = sh(["coq_makefile", "-f", "_CoqProject", "-o", "Makefile"], cwd=COQ)
        if rc != 0:
            infra_fail("coq_makefile failed", out)
    rc, out = sh(["make", "-j16"], cwd=COQ, timeout=3000)
    if rc != 0:
        infra_fail("the Coq development does not build", out)
    # extracted runner
    runner = os.path.join(BUILD, "runner")
    ext = os.path.join(COQ, "extract")
    srcs = [os.path.join(ext, "Extract.v"), os.path.join(ext, "driver.ml")] + glob.glob(os.path.join(COQ, "theories", "*.vo"))
    if (not os.path.exists(runner)) or any(os.path.getmtime(s) > os.path.getmtime(runner) for s in srcs):
        os.makedirs(BUILD, exist_ok=True)
        rc, out = sh(["coqc", "-Q", "../theories", "Ice", "Extract.v"], cwd=ext, timeout=600)
        if rc != 0:
            infra_fail("extraction failed", out)
        rc, out = sh(["ocamlfind", "ocamlopt", "-inline", "100", "-w", "-a", "runner_core.mli", "runner_core.ml",
                      "driver.ml", "-o", runner], cwd=ext, timeout=600)
        if rc != 0:
            infra_fail("OCaml build of the extracted runner failed", out)


def check_property_theorems(pid):
    """Re-compile properties/<pid>.v and parse what Print Assumptions reports.
    Returns (obligations, discharged, axioms, theorem_names)."""
    f = os.path.join(COQ, "properties", pid + ".v")
    if not os.path.exists(f):
        return 0, 0, [], []
    src = open(f).read()
    names = re.findall(r"^\s*(?:Theorem|Lemma|Corollary|Example)\s+([A-Za-z0-9_']+)", src, re.M)
    rc, out = sh(["coqc", "-Q", "theories", "Ice", "-Q", "proofs", "IceProofs", "-Q", "properties", "IceProps",
                  os.path.join("properties", pid + ".v")], cwd=COQ, timeout=1200)
    if rc != 0:
        return len(names), 0, ["COMPILE-FAILURE: " + out[-600:]], names
    closed = out.count("Closed under the global context")
    axioms = []
    for m in re.finditer(r"Axioms:\n((?:.+\n?)+?)(?:\n|$)", out):
        for line in m.group(1).splitlines():
            mm = re.match(r"^([A-Za-z0-9_.']+)\s*:", line)
            if mm:
                axioms.append(mm.group(1))
    printed = closed + out.count("Axioms:")
    return len(names), min(printed, len(names)), sorted(set(axioms)), names


def run_coqchk(pid):
    """Thorough tier: re-check the compiled property module and everything it depends on with the
    independent checker and list the axioms it relies on."""
    rc, out = sh(["coqchk", "-silent", "-o", "-Q", "theories", "Ice", "-Q", "proofs", "IceProofs", "-Q", "properties", "IceProps",
                  "IceProps." + pid], cwd=COQ, timeout=3600)
    m = re.search(r"\* Axioms:\s*(.*?)\n\s*\n", out + "\n\n", re.S)
    axioms = m.group(1).strip() if m else "?"
    ok = rc == 0 and axioms == "<none>" and "type-in-type: <none>" in out and "unsafe (co)fixpoints: <none>" in out and "positivity is assumed: <none>" in out
    return {"ok": ok, "axioms": axioms, "exit": rc, "tail": out[-600:] if not ok else ""}


def build_harness(race=False):
    os.makedirs(BUILD, exist_ok=True)
    hdir = os.path.join(ROOT, "harness")
    gosum = os.path.join(hdir, "go.sum")
    if not os.path.exists(gosum):
        shutil.copy(os.path.join(REPO, "go.sum"), gosum)
    cmd = ["go", "build", "-tags", "verif"] + (["-race"] if race else []) + ["-o", os.path.join(BUILD, "hx_race" if race else "hx"), "./cmd/hx"]
    rc, out = sh(cmd, cwd=hdir, env=GOENV, timeout=1200)
    return rc, out


def run_translator(pid):
    """Regenerate Generated.v from /repo and re-prove GenTie.v.  Returns a dict."""
    tdir = os.path.join(ROOT, "translator")
    if not os.path.isdir(tdir):
        return {"enabled": False, "obligations": 0, "discharged": 0, "failures": []}
    gdir = os.path.join(BUILD, "generated")
    os.makedirs(gdir, exist_ok=True)
    rc, out = sh(["go", "build", "-o", os.path.join(BUILD, "translator"), "."], cwd=tdir, env=GOENV, timeout=600)
    if rc != 0:
        infra_fail("translator does not build", out)
    rc, out = sh([os.path.join(BUILD, "translator"), "-repo", REPO, "-out", os.path.join(gdir, "Generated.v")], timeout=120)
    res = {"enabled": True, "obligations": 0, "discharged": 0, "failures": [], "log": ""}
    if rc != 0:
        res["failures"].append({"obligation": "translate", "detail": out[-1500:]})
        res["obligations"] = 1
        return res
    # functions outside the translator's subset are left out of Generated.v: only the Tie files about them break
    untr = [l.strip() for l in out.splitlines() if "UNTRANSLATED" in l]
    res["untranslated"] = untr
    qflags = ["-Q", os.path.join(COQ, "theories"), "Ice", "-Q", os.path.join(COQ, "proofs"), "IceProofs", "-Q", gdir, "IceGen"]
    rc, out = sh(["coqc"] + qflags + ["Generated.v"], cwd=gdir, timeout=600)
    if rc != 0:
        res["failures"].append({"obligation": "Generated.v compiles", "detail": out[-1500:]})
        res["obligations"] = 1
        return res
    # one file per obligation group so that one failure does not hide the others.  Compiled files of
    # earlier runs are removed first (they may have been built against another Generated.v), and a
    # file that imports another Tie file is compiled after it, whatever their names.
    for old in glob.glob(os.path.join(gdir, "Tie_*")):
        os.remove(old)
    tie_src = os.path.join(COQ, "gentie")
    srcs, deps, wanted = {}, {}, []
    for f in sorted(glob.glob(os.path.join(tie_src, "Tie_*.v"))):
        name = os.path.basename(f)[:-2]
        text = open(f).read()
        srcs[name] = text
        deps[name] = [d for d in re.findall(r"\b(Tie_\w+)\b", " ".join(re.findall(r"From\s+IceGen\s+Require\s+Import([^.]*)\.", text))) if d != name]
        props = re.findall(r"\(\*\s*props:\s*([A-Z0-9 ,]+)\*\)", text)
        plist = [p.strip() for p in (props[0].split(",") if props else [])]
        if pid in plist or "ALL" in plist:
            wanted.append(name)
    order, seen = [], set()

    def visit(n):
        if n in seen or n not in srcs:
            return
        seen.add(n)
        for d in deps[n]:
            visit(d)
        order.append(n)
    for n in wanted:
        visit(n)
    broken = set()
    for name in order:
        text = srcs[name]
        with open(os.path.join(gdir, name + ".v"), "w") as fh:
            fh.write(text)
        counted = name in wanted      # a dependency outside the property's own list is compiled, not counted
        nobl = len(re.findall(r"^\s*(?:Theorem|Lemma|Example)\s", text, re.M)) if counted else 0
        res["obligations"] += nobl
        if any(d in broken for d in deps[name]):
            broken.add(name)
            res["failures"].append({"obligation": name + ".v", "detail": "not compiled: it imports " + ", ".join(d for d in deps[name] if d in broken) + ", which no longer checks"})
            continue
        rc, out = sh(["coqc"] + qflags + [name + ".v"], cwd=gdir, timeout=900)
        if rc != 0:
            broken.add(name)
            res["failures"].append({"obligation": name + ".v", "detail": out[-1500:] + ("\n" + "\n".join(untr) if untr else "")})
        else:
            res["discharged"] += nobl
    return res


def frames(nums):
    """Split a framed transcript [len, items..., len, items...] into per-op lists."""
    out, i = [], 0
    while i < len(nums):
        n = nums[i]
        out.append(nums[i + 1:i + 1 + n])
        i += 1 + n
    return out


def run_model(indir, shards=14):
    """Evaluate every case with the extracted model, sharded over several runner processes (the runner is
    a line-by-line filter; shards are balanced by input size and the answers reassembled in order)."""
    from concurrent.futures import ThreadPoolExecutor
    runner = os.path.join(BUILD, "runner")
    lines = open(os.path.join(indir, "cases.in")).read().splitlines()
    n = len(lines)
    k = max(1, min(shards, n))
    load = [0] * k
    member = [[] for _ in range(k)]
    for i in sorted(range(n), key=lambda i: -len(lines[i])):
        j = load.index(min(load))
        member[j].append(i)
        load[j] += len(lines[i]) + 1

    def work(j):
        idx = sorted(member[j])
        data = "".join(lines[i] + "\n" for i in idx).encode()
        p = subprocess.run(["bash", "-c", "ulimit -s unlimited 2>/dev/null; exec " + runner], input=data,
                           stdout=subprocess.PIPE, stderr=subprocess.PIPE, timeout=7200)
        if p.returncode != 0:
            infra_fail("model runner failed", p.stderr.decode()[-2000:])
        out = p.stdout.decode().splitlines()
        if len(out) != len(idx):
            infra_fail("model runner answered %d lines for %d cases" % (len(out), len(idx)))
        return idx, out
    res = [None] * n
    with ThreadPoolExecutor(max_workers=k) as ex:
        for idx, out in ex.map(work, range(k)):
            for i, o in zip(idx, out):
                res[i] = o
    with open(os.path.join(indir, "cases.model"), "w") as f:
        for o in res:
            f.write(o + "\n")


def vm_sample(indir, max_cases=12, max_numbers=2500):
    """Evaluate a sample of the cases inside Coq with vm_compute (kernel only, no extraction)."""
    ins = open(os.path.join(indir, "cases.in")).read().splitlines()
    exps = open(os.path.join(indir, "cases.exp")).read().splitlines()
    chosen = []
    for i, (a, b) in enumerate(zip(ins, exps)):
        if a.count(" ") + b.count(" ") <= max_numbers:
            chosen.append(i)
        if len(chosen) >= max_cases:
            break
    if not chosen:
        return {"cases": 0, "mismatches": []}

    def lit(line):
        xs = line.split()
        # chunks keep the parser's recursion shallow
        parts = ["[" + ";".join(xs[k:k + 400]) + "]" for k in range(0, len(xs), 400)] or ["[]"]
        return "(" + " ++ ".join(parts) + ")%N"
    vdir = os.path.join(indir, "vm")
    os.makedirs(vdir, exist_ok=True)
    with open(os.path.join(vdir, "cases_vm.v"), "w") as f:
        f.write("From Ice Require Import Base Run.\nOpen Scope N_scope.\n")
        for k, i in enumerate(chosen):
            f.write("Definition i%d : list N := %s.\nDefinition e%d : list N := %s.\n" % (k, lit(ins[i]), k, lit(exps[i])))
        f.write("Definition M := Eval vm_compute in mismatches 0 [%s].\nPrint M.\n" %
                "; ".join("(i%d, e%d)" % (k, k) for k in range(len(chosen))))
    rc, out = sh(["coqc", "-Q", os.path.join(COQ, "theories"), "Ice", "cases_vm.v"], cwd=vdir, timeout=1800)
    if rc != 0:
        infra_fail("vm_compute sample failed to compile", out)
    m = re.search(r"M\s*=\s*\[(.*?)\]", out, re.S)
    if not m:
        infra_fail("could not parse vm_compute output", out)
    body = m.group(1).strip()
    mism = [chosen[int(x.replace("%N", "").strip())] for x in body.split(";") if x.strip()] if body else []
    return {"cases": len(chosen), "mismatches": mism}


def still_fails(pid, case, workdir):
    """Run one case on the implementation and on the model; True when they (still) disagree."""
    os.makedirs(workdir, exist_ok=True)
    rp = os.path.join(workdir, "cand.json")
    json.dump({"case": case}, open(rp, "w"))
    race = bool(PROPS[pid].get("race"))
    rc, out = sh([os.path.join(BUILD, "hx_race" if race else "hx"), "-prop", pid, "-nospecial", "-out", workdir, "-replay", rp], env=GOENV, timeout=300)
    if rc != 0:
        return False
    try:
        run_model(workdir)
        exp = open(os.path.join(workdir, "cases.exp")).read()
        mod = open(os.path.join(workdir, "cases.model")).read()
        st = json.load(open(os.path.join(workdir, "stats.json")))
    except SystemExit:
        return False
    return exp != mod or bool(st.get("go_failures"))


def shrink_case(pid, case, first_op):
    """Delta debugging on the op list: cut everything after the first differing op, then drop every
    observation op before it that is not needed (ops that create slots are kept)."""
    workdir = os.path.join(BUILD, "run", pid, "shrink")
    best = json.loads(json.dumps(case))
    best.pop("equal", None)
    creates = (1, 2, 3)
    if first_op is not None and first_op + 1 < len(best["ops"]):
        cand = dict(best, ops=best["ops"][:first_op + 1])
        if still_fails(pid, cand, workdir):
            best = cand
    i = len(best["ops"]) - 2
    steps = 0
    while i >= 0 and steps < 60:
        if best["ops"][i]["op"] not in creates:
            cand = dict(best, ops=best["ops"][:i] + best["ops"][i + 1:])
            steps += 1
            if still_fails(pid, cand, workdir):
                best = cand
        i -= 1
    # shorten iterator op sequences and visit lists of the last op
    last = best["ops"][-1]
    for key in ("iter_ops", "visits", "terms"):
        while last.get(key) and len(last[key]) > 1 and steps < 120:
            cand_last = dict(last, **{key: last[key][:-1]})
            cand = dict(best, ops=best["ops"][:-1] + [cand_last])
            steps += 1
            if still_fails(pid, cand, workdir):
                best, last = cand, cand_last
            else:
                break
    shutil.rmtree(workdir, ignore_errors=True)
    return best


def write_replay(pid, seed, n, payload):
    rdir = os.path.join(ROOT, "replays")
    os.makedirs(rdir, exist_ok=True)
    path = os.path.join(rdir, "%s-%d-%d.json" % (pid, seed, n))
    payload = dict(payload)
    payload["property"] = pid
    payload["replay_cmd"] = "bin/check %s --replay %s" % (pid, path)
    with open(path, "w") as f:
        json.dump(payload, f, indent=1)
    return path


def known_findings():
    out = []
    p = os.path.join(ROOT, "known_findings.txt")
    if os.path.exists(p):
        for line in open(p):
            line = line.strip()
            if line.startswith("known:"):
                m = re.match(r"known:\s*property=(\S+)\s+signature=(\S+)\s*(.*)", line)
                if m:
                    out.append({"property": m.group(1), "signature": m.group(2), "text": m.group(3)})
    return out


# ---------------------------------------------------------------------------
# the generic correspondence check
# ---------------------------------------------------------------------------
def correspondence(pid, tier, seed, ev, violations, replay_case=None):
    rundir = os.path.join(BUILD, "run", pid)
    shutil.rmtree(rundir, ignore_errors=True)
    os.makedirs(rundir)
    race = bool(PROPS[pid].get("race"))
    cmd = [os.path.join(BUILD, "hx_race" if race else "hx"), "-prop", pid, "-tier", tier, "-seed", str(seed), "-out", rundir]
    if replay_case:
        cmd += ["-replay", replay_case]
    env = dict(GOENV)
    if race:
        env["GORACE"] = "halt_on_error=0 log_path=%s" % os.path.join(rundir, "race")
    rc, out = sh(cmd, env=env, timeout=7200)
    if race and rc == 0 and not replay_case:
        # the deterministic re-entrancy part again in the binary without the race detector
        rundir2 = rundir + "_norace"
        shutil.rmtree(rundir2, ignore_errors=True)
        os.makedirs(rundir2)
        rcb, outb = build_harness(race=False)
        if rcb == 0:
            env2 = dict(GOENV, VERIF_C09_REENTRANT_ONLY="1")
            rc2, out2 = sh([os.path.join(BUILD, "hx"), "-prop", pid, "-tier", tier, "-seed", str(seed), "-out", rundir2], env=env2, timeout=3600)
            if rc2 == 0:
                sp2 = (json.load(open(os.path.join(rundir2, "stats.json"))).get("special") or {})
                ev["coverage"]["reentrancy_without_race_detector"] = {"evaluations": sp2.get("evaluations", 0)}
                for fl in (sp2.get("failures") or []):
                    violations.append({"kind": "special-exploration", "failing_input": True, "detail": fl["what"], "input": fl.get("input")})
            else:
                violations.append({"kind": "harness-crash", "detail": out2[-3000:], "failing_input": False})
    if PROPS[pid].get("race_extra") and rc == 0 and not replay_case:
        # the concurrent part of the exploration again, in a binary built with the race detector
        rcb, outb = build_harness(race=True)
        if rcb != 0:
            violations.append({"kind": "harness-build", "failing_input": False, "broken": "harness does not build with -race", "detail": outb[-2000:]})
        else:
            rundir3 = rundir + "_race"
            shutil.rmtree(rundir3, ignore_errors=True)
            os.makedirs(rundir3)
            env3 = dict(GOENV, GORACE="halt_on_error=0 log_path=%s" % os.path.join(rundir3, "race"))
            env3[PROPS[pid]["race_extra"]] = "1"
            rc3, out3 = sh([os.path.join(BUILD, "hx_race"), "-prop", pid, "-tier", tier, "-seed", str(seed), "-out", rundir3], env=env3, timeout=3600)
            reports3 = []
            for f in sorted(glob.glob(os.path.join(rundir3, "race.*"))):
                reports3 += [r for r in open(f).read().split("==================") if "DATA RACE" in r]
            in_ice3 = [r for r in reports3 if "blugelabs/ice" in r]
            ev["coverage"]["race_detector_run"] = {"reports": len(reports3), "reports_inside_ice": len(in_ice3)}
            for r in in_ice3[:3]:
                violations.append({"kind": "data-race", "failing_input": True, "detail": r.strip()[:4000],
                                   "input": {"seed": seed, "tier": tier, "note": "schedule dependent: re-run the check with the same seed"}})
            if rc3 != 0:
                violations.append({"kind": "harness-crash", "detail": out3[-3000:], "failing_input": False})
            else:
                sp3 = (json.load(open(os.path.join(rundir3, "stats.json"))).get("special") or {})
                for fl in (sp3.get("failures") or []):
                    violations.append({"kind": "special-exploration", "failing_input": True, "detail": fl["what"], "input": fl.get("input")})
    if race:
        reports = []
        for f in sorted(glob.glob(os.path.join(rundir, "race.*"))):
            txt = open(f).read()
            reports += [r for r in txt.split("==================") if "DATA RACE" in r]
        in_ice = [r for r in reports if "blugelabs/ice" in r]
        ev["coverage"]["race_detector_reports"] = len(reports)
        ev["coverage"]["race_detector_reports_inside_ice"] = len(in_ice)
        for r in in_ice[:3]:
            violations.append({"kind": "data-race", "failing_input": True, "detail": r.strip()[:4000],
                               "input": {"seed": seed, "tier": tier, "note": "schedule dependent: re-run the check with the same seed"}})
    if rc != 0:
        # the harness itself crashed on the real code: that is an observation about the code
        violations.append({"kind": "harness-crash", "detail": out[-3000:], "failing_input": False})
        return
    stats = json.load(open(os.path.join(rundir, "stats.json")))
    run_model(rundir)
    ins = open(os.path.join(rundir, "cases.in")).read().splitlines()
    exps = open(os.path.join(rundir, "cases.exp")).read().splitlines()
    mods = open(os.path.join(rundir, "cases.model")).read().splitlines()
    cases = [json.loads(l) for l in open(os.path.join(rundir, "cases.jsonl"))]
    if not (len(ins) == len(exps) == len(mods) == len(cases)):
        infra_fail("case files have different lengths")
    nmis = 0
    for i in range(len(ins)):
        if exps[i] != mods[i]:
            nmis += 1
            if nmis <= 3:
                fi = frames([int(x) for x in exps[i].split()])
                fm = frames([int(x) for x in mods[i].split()])
                diff_ops = [k for k in range(max(len(fi), len(fm))) if k >= len(fi) or k >= len(fm) or fi[k] != fm[k]]
                # ops that look at internals (byte layout 21, index structures 22, the builder's in-memory
                # state 23) tie the model to the code more tightly than the property demands: for every
                # property except the format property C10 a difference there alone is a broken
                # correspondence (a harmless change of internals can cause it), not a failing input
                internal = {21, 22, 23, 24, 25, 26, 27} if pid != "C10" else set()
                codes = [c["op"] for c in cases[i]["ops"]]
                api_diffs = [k for k in diff_ops if k >= len(codes) or codes[k] not in internal]
                opi = (api_diffs or diff_ops or [None])[0]
                if not api_diffs and diff_ops:
                    violations.append({"kind": "internal-correspondence", "failing_input": False, "case_index": i, "case": cases[i],
                                       "first_differing_op": opi,
                                       "implementation_answer": fi[opi] if opi < len(fi) else None,
                                       "model_answer": fm[opi] if opi < len(fm) else None,
                                       "broken": "the correspondence between the model and the code's internals (op code %d: byte layout / index structures / builder state) no longer holds on this scenario, while every API answer of the scenario still agrees with the specification" % codes[opi]})
                    continue
                violations.append({"kind": "transcript-mismatch", "failing_input": True, "case_index": i,
                                   "case": cases[i], "first_differing_op": opi,
                                   "implementation_answer": fi[opi] if opi is not None and opi < len(fi) else None,
                                   "model_answer": fm[opi] if opi is not None and opi < len(fm) else None,
                                   "flat_input": ins[i],
                                   "note": "the implementation's observable answer differs from what the specification (proved model) demands"})
    for gf in (stats.get("go_failures") or []):
        if gf.get("prop") in ("", pid):
            violations.append({"kind": "go-side-check", "failing_input": True, "case_index": gf["case"],
                               "case": cases[gf["case"]] if gf["case"] < len(cases) else None, "detail": gf["what"]})
    sp = stats.get("special")
    if sp:
        for fl in (sp.get("failures") or []):
            violations.append({"kind": "special-exploration", "failing_input": True, "detail": fl["what"], "input": fl.get("input"),
                               "signature": fl.get("signature")})
    vm = vm_sample(rundir) if not replay_case else {"cases": 0, "mismatches": []}
    for i in vm["mismatches"]:
        if exps[i] == mods[i]:
            infra_fail("vm_compute and the extracted runner disagree on case %d" % i)
    cov = ev["coverage"]
    cov["evaluations"] = stats["cases"]
    cov["distinct_nontrivial"] = stats["distinct_nontrivial"]
    cov["rule"] = stats["rule"]
    cov["samples"] = stats["samples"]
    cov["input_distribution"] = {k: stats[k] for k in ("families", "tags", "op_counts", "doc_count_histogram", "touched")}
    cov["transcript_numbers_compared"] = stats["transcript_numbers"]
    cov["traces_validated_against_impl"] = stats["cases"]
    cov["mismatches"] = nmis
    cov["vm_compute_sample"] = {"cases": vm["cases"], "mismatches": len(vm["mismatches"])}
    if stats.get("extra"):
        cov["extra"] = stats["extra"]
    if sp:
        cov["model_compared_cases"] = stats["cases"]
        cov["evaluations"] = stats["cases"] + sp["evaluations"]
        cov["distinct_nontrivial"] = stats["distinct_nontrivial"] + sp["distinct_nontrivial"]
        cov["rule"] = "(a) " + sp["rule"] + "; (b) model-compared scenarios: " + stats["rule"]
        cov["samples"] = (sp.get("samples") or []) + stats["samples"]
        cov["special_exploration"] = {k: sp[k] for k in ("evaluations", "distinct", "distinct_nontrivial", "extra")}
        if (sp.get("extra") or {}).get("exhaustive_per_workload") or (sp.get("extra") or {}).get("exhaustive_per_sequence"):
            cov["exhaustive"] = False  # exhaustive per workload/sequence only, not over all workloads


def run_check(pid, tier, seed):
    t0 = time.time()
    if pid not in PROPS:
        print("unknown property " + pid)
        return 2
    P = PROPS[pid]
    os.makedirs(os.path.join(ROOT, "evidence"), exist_ok=True)
    ev = {"property_id": pid, "tier": tier, "seed": seed, "level": P["level"], "coverage": {}, "assumptions": [], "wall_s": 0.0, "violations": 0}
    violations = []
    coq_build()
    nobl, ndis, axioms, names = check_property_theorems(pid)
    tie = run_translator(pid)
    rc, out = build_harness(race=bool(P.get("race")))
    if rc != 0:
        # /repo no longer compiles with the hooks: not a property violation we can exhibit
        violations.append({"kind": "harness-build", "failing_input": False, "detail": out[-3000:],
                           "broken": "the correspondence harness does not build against the current /repo"})
    else:
        correspondence(pid, tier, seed, ev, violations)
    for fl in tie["failures"]:
        violations.append({"kind": "gentie", "failing_input": False, "broken": "GenTie obligation " + fl["obligation"], "detail": fl["detail"]})
    if ndis < nobl:
        violations.append({"kind": "theorem", "failing_input": False, "broken": "properties/%s.v: %d of %d theorems checked" % (pid, ndis, nobl),
                           "detail": "; ".join(axioms)[-1500:]})
    cov = ev["coverage"]
    if tier == "thorough" and nobl > 0:
        chk = run_coqchk(pid)
        cov["coqchk"] = chk
        if not chk["ok"]:
            violations.append({"kind": "coqchk", "failing_input": False, "broken": "coqchk does not accept IceProps.%s without axioms" % pid, "detail": chk["tail"]})
    cov["obligations"] = nobl + tie["obligations"]
    cov["discharged"] = ndis + tie["discharged"]
    cov["theorems"] = names
    cov["gentie_obligations"] = tie["obligations"]
    cov["checker_cmd"] = "make -C coq (coqc 8.16.1, full .vo build); coqc properties/%s.v with Print Assumptions under every theorem; coqc build/generated/Tie_*.v against the regenerated Generated.v" % pid
    cov["axioms_reported_by_print_assumptions"] = [a for a in axioms if not a.startswith("COMPILE-FAILURE")]
    cov["trusted_base"] = TRUSTED_BASE + P.get("trusted", [])
    cov["explanation"] = P["explanation"]
    cov.setdefault("evaluations", 0)
    cov.setdefault("distinct_nontrivial", 0)
    ev["assumptions"] = ASSUMPTIONS + P.get("assumptions", [])
    # known findings: a violation matching a listed signature is reported as KNOWN-FINDING
    kf = known_findings()
    real = []
    for v in violations:
        sig = v.get("signature")
        hit = next((k for k in kf if k["property"] == pid and sig and k["signature"] == sig), None)
        if hit:
            print("KNOWN-FINDING: property=%s %s" % (pid, hit["text"]))
        else:
            real.append(v)
    ev["violations"] = len(real)
    ev["wall_s"] = round(time.time() - t0, 2)
    with open(os.path.join(ROOT, "evidence", pid + ".json"), "w") as f:
        json.dump(ev, f, indent=1)
    if real:
        with_input = [v for v in real if v.get("failing_input")]
        chosen = with_input[0] if with_input else real[0]
        if chosen.get("kind") == "transcript-mismatch" and chosen.get("case"):
            try:
                small = shrink_case(pid, chosen["case"], chosen.get("first_differing_op"))
                chosen["original_case_ops"] = len(chosen["case"]["ops"])
                chosen["case"] = small
                chosen["shrunk_case_ops"] = len(small["ops"])
            except Exception as e:  # shrinking is best effort
                chosen["shrink_error"] = str(e)
        path = write_replay(pid, seed, 0, {"violation": chosen, "all_violations": real[:10], "case": chosen.get("case")})
        tail = "" if chosen.get("failing_input") else " no-failing-input-found"
        print("VIOLATION property=%s replay=%s%s" % (pid, path, tail))
        return 1
    print("OK property=%s tier=%s seed=%d cases=%d obligations=%d/%d wall=%.1fs" % (
        pid, tier, seed, cov.get("evaluations", 0), cov["discharged"], cov["obligations"], ev["wall_s"]))
    return 0


def replay(pid, path):
    data = json.load(open(path))
    if not data.get("case"):
        print("replay file names a broken obligation, not an input: " + json.dumps(data.get("violation", {}).get("broken")))
        # re-run the whole quick check: the obligation is re-checked there
        return run_check(pid, "quick", 1)
    coq_build()
    rc, out = build_harness()
    if rc != 0:
        infra_fail("harness does not build", out)
    ev = {"coverage": {}}
    violations = []
    correspondence(pid, "quick", 0, ev, violations, replay_case=path)
    if violations:
        print(json.dumps(violations[0], indent=1)[:6000])
        print("VIOLATION property=%s replay=%s" % (pid, path))
        return 1
    print("replay passes: implementation and model agree on this case")
    return 0

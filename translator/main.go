// Command translator regenerates, from the current Go source of ice, the parts
// of the Coq model that can be translated mechanically:
//   1. every package-level integer constant;
//   2. the pure arithmetic functions (a small syntax-directed Go -> Gallina
//      compilation over N with explicit uint64 wrap-around);
//   3. the lock skeleton of every function that touches a sync.Mutex;
//   4. the table of writes to shared Segment state with what is syntactically
//      held, and whether the function is reachable only from constructors;
//   5. the shape of the two WriteTo functions (buffered writer threaded
//      through, final Flush checked).
// Anything outside the supported subset makes it fail loudly.
package main

import (
	"flag"
	"fmt"
	"go/ast"
	"go/parser"
	"go/token"
	"math/big"
	"os"
	"path/filepath"
	"sort"
	"strings"
)

var fset = token.NewFileSet()

type pkgInfo struct {
	files  map[string]*ast.File
	funcs  map[string]*ast.FuncDecl // key: Recv.Name or Name
	consts map[string]*big.Int
	order  []string
	// static type of the constants and integer variables that have one ("u32", "int", ...)
	constTypes map[string]string
}

// soft is set while one function is being translated: a construct outside the
// subset then abandons that function only (see try), not the whole run.
var soft bool

type trError struct{ msg string }

func fail(format string, a ...interface{}) {
	msg := fmt.Sprintf(format, a...)
	if soft {
		panic(trError{msg})
	}
	fmt.Fprintf(os.Stderr, "translator: "+msg+"\n")
	os.Exit(1)
}

var untranslated []string
var failedFns = map[string]bool{}

// try translates one function; when it is outside the supported subset the
// definition is left out of Generated.v (a comment says why), so that only the
// obligations about that function break.
func try(name string, f func() string) (out string) {
	soft = true
	defer func() {
		soft = false
		if r := recover(); r != nil {
			e, ok := r.(trError)
			if !ok {
				panic(r)
			}
			untranslated = append(untranslated, name+": "+e.msg)
			failedFns[strings.TrimPrefix(name, "g_")] = true
			fmt.Fprintf(os.Stderr, "translator: UNTRANSLATED %s: %s\n", name, e.msg)
			out = "(* UNTRANSLATED " + name + ": " + strings.ReplaceAll(e.msg, "*)", "* )") + " *)\n"
		}
	}()
	return f()
}

func recvName(fd *ast.FuncDecl) string {
	if fd.Recv == nil || len(fd.Recv.List) == 0 {
		return ""
	}
	t := fd.Recv.List[0].Type
	if s, ok := t.(*ast.StarExpr); ok {
		t = s.X
	}
	if id, ok := t.(*ast.Ident); ok {
		return id.Name
	}
	return ""
}

func funcKey(fd *ast.FuncDecl) string {
	if r := recvName(fd); r != "" {
		return r + "." + fd.Name.Name
	}
	return fd.Name.Name
}

func load(dir string) *pkgInfo {
	p := &pkgInfo{files: map[string]*ast.File{}, funcs: map[string]*ast.FuncDecl{}, consts: map[string]*big.Int{}, constTypes: map[string]string{}}
	names, _ := filepath.Glob(filepath.Join(dir, "*.go"))
	sort.Strings(names)
	for _, n := range names {
		base := filepath.Base(n)
		if strings.HasSuffix(base, "_test.go") || base == "verif_hooks.go" {
			continue
		}
		f, err := parser.ParseFile(fset, n, nil, parser.ParseComments)
		if err != nil {
			fail("cannot parse %s: %v", n, err)
		}
		p.files[base] = f
		for _, d := range f.Decls {
			if fd, ok := d.(*ast.FuncDecl); ok && fd.Body != nil {
				p.funcs[funcKey(fd)] = fd
			}
		}
	}
	if len(p.files) == 0 {
		fail("no Go files in %s", dir)
	}
	return p
}

// ---------------------------------------------------------------------------
// 1. constants
// ---------------------------------------------------------------------------

var builtinConsts = map[string]string{
	"math.MaxUint64":          "18446744073709551615",
	"math.MaxInt64":           "9223372036854775807",
	"math.MaxUint32":          "4294967295",
	"math.MaxInt32":           "2147483647",
	"binary.MaxVarintLen64":   "10",
	"binary.MaxVarintLen32":   "5",
}

func (p *pkgInfo) evalConst(e ast.Expr) (*big.Int, bool) {
	switch x := e.(type) {
	case *ast.BasicLit:
		if x.Kind == token.INT {
			v, ok := new(big.Int).SetString(x.Value, 0)
			return v, ok
		}
		if x.Kind == token.CHAR {
			return nil, false
		}
		return nil, false
	case *ast.Ident:
		v, ok := p.consts[x.Name]
		return v, ok
	case *ast.ParenExpr:
		return p.evalConst(x.X)
	case *ast.SelectorExpr:
		if id, ok := x.X.(*ast.Ident); ok {
			if s, ok := builtinConsts[id.Name+"."+x.Sel.Name]; ok {
				v, _ := new(big.Int).SetString(s, 10)
				return v, true
			}
		}
		return nil, false
	case *ast.CallExpr: // conversion uint64(x), uint32(x), int(x), byte(x)
		if id, ok := x.Fun.(*ast.Ident); ok && len(x.Args) == 1 {
			switch id.Name {
			case "uint64", "uint32", "uint16", "uint8", "byte", "int", "int64", "uint":
				return p.evalConst(x.Args[0])
			}
		}
		return nil, false
	case *ast.UnaryExpr:
		v, ok := p.evalConst(x.X)
		if !ok {
			return nil, false
		}
		switch x.Op {
		case token.ADD:
			return v, true
		case token.SUB:
			return new(big.Int).Neg(v), true
		}
		return nil, false
	case *ast.BinaryExpr:
		a, ok1 := p.evalConst(x.X)
		b, ok2 := p.evalConst(x.Y)
		if !ok1 || !ok2 {
			return nil, false
		}
		r := new(big.Int)
		switch x.Op {
		case token.ADD:
			return r.Add(a, b), true
		case token.SUB:
			return r.Sub(a, b), true
		case token.MUL:
			return r.Mul(a, b), true
		case token.QUO:
			if b.Sign() == 0 {
				return nil, false
			}
			return r.Quo(a, b), true
		case token.SHL:
			return r.Lsh(a, uint(b.Uint64())), true
		case token.SHR:
			return r.Rsh(a, uint(b.Uint64())), true
		case token.OR:
			return r.Or(a, b), true
		case token.AND:
			return r.And(a, b), true
		}
		return nil, false
	}
	return nil, false
}

// sizeOfUint16/32/64 are package variables set in init() from
// reflect.TypeOf(v).Size() with `var v uintNN` declared just before: their
// values are fixed by the language, the translator evaluates them.
func (p *pkgInfo) collectSizes() {
	for _, f := range p.files {
		for _, d := range f.Decls {
			fd, ok := d.(*ast.FuncDecl)
			if !ok || fd.Name.Name != "init" || fd.Recv != nil || fd.Body == nil {
				continue
			}
			locals := map[string]string{}
			for _, s := range fd.Body.List {
				switch x := s.(type) {
				case *ast.DeclStmt:
					if gd, ok := x.Decl.(*ast.GenDecl); ok {
						for _, sp := range gd.Specs {
							vs := sp.(*ast.ValueSpec)
							if id, ok := vs.Type.(*ast.Ident); ok {
								for _, n := range vs.Names {
									locals[n.Name] = id.Name
								}
							}
						}
					}
				case *ast.AssignStmt:
					if len(x.Lhs) != 1 || len(x.Rhs) != 1 {
						continue
					}
					id, ok := x.Lhs[0].(*ast.Ident)
					if !ok {
						continue
					}
					// int(reflect.TypeOf(v).Size())
					conv, ok := x.Rhs[0].(*ast.CallExpr)
					if !ok || len(conv.Args) != 1 {
						continue
					}
					if c, ok := conv.Fun.(*ast.Ident); !ok || c.Name != "int" {
						continue
					}
					size, ok := conv.Args[0].(*ast.CallExpr)
					if !ok {
						continue
					}
					sel, ok := size.Fun.(*ast.SelectorExpr)
					if !ok || sel.Sel.Name != "Size" {
						continue
					}
					tof, ok := sel.X.(*ast.CallExpr)
					if !ok || len(tof.Args) != 1 {
						continue
					}
					if ts, ok := tof.Fun.(*ast.SelectorExpr); !ok || ts.Sel.Name != "TypeOf" {
						continue
					}
					v, ok := tof.Args[0].(*ast.Ident)
					if !ok {
						continue
					}
					if w := map[string]int64{"uint16": 2, "uint32": 4, "uint64": 8}[locals[v.Name]]; w != 0 {
						if _, done := p.consts[id.Name]; !done {
							p.consts[id.Name] = big.NewInt(w)
							p.constTypes[id.Name] = "int"
							p.order = append(p.order, id.Name)
						}
					}
				}
			}
		}
	}
}

func (p *pkgInfo) collectConsts() {
	p.collectSizes()
	// several passes so that forward references between files resolve
	for pass := 0; pass < 4; pass++ {
		var fnames []string
		for n := range p.files {
			fnames = append(fnames, n)
		}
		sort.Strings(fnames)
		for _, fn := range fnames {
			for _, d := range p.files[fn].Decls {
				gd, ok := d.(*ast.GenDecl)
				if !ok || (gd.Tok != token.CONST && gd.Tok != token.VAR) {
					continue
				}
				for _, s := range gd.Specs {
					vs := s.(*ast.ValueSpec)
					for i, name := range vs.Names {
						if i >= len(vs.Values) {
							continue
						}
						if _, done := p.consts[name.Name]; done {
							continue
						}
						if gd.Tok == token.VAR {
							// only byte/integer typed package variables with a literal value (termSeparator)
							if id, ok := vs.Type.(*ast.Ident); !ok || (id.Name != "byte" && id.Name != "uint8") {
								continue
							}
						}
						if v, ok := p.evalConst(vs.Values[i]); ok && v.Sign() >= 0 {
							p.consts[name.Name] = v
							p.order = append(p.order, name.Name)
							if id, ok := vs.Type.(*ast.Ident); ok {
								if ty := map[string]string{"uint64": "u64", "uint32": "u32", "uint16": "u16", "int": "int"}[id.Name]; ty != "" {
									p.constTypes[name.Name] = ty
								}
							}
						}
					}
				}
			}
		}
	}
}

// ---------------------------------------------------------------------------
// 2. pure functions
// ---------------------------------------------------------------------------

type fnTr struct {
	p      *pkgInfo
	fd     *ast.FuncDecl
	bools  map[string]bool // variables of type bool
	named  []string        // named results
	nres   int             // number of non-error results
	hasErr bool
}

func (t *fnTr) unsupported(n ast.Node, what string) {
	fail("%s: unsupported %s at %s", t.fd.Name.Name, what, fset.Position(n.Pos()))
}

func isErrorType(e ast.Expr) bool {
	id, ok := e.(*ast.Ident)
	return ok && id.Name == "error"
}

// expression of type N
func (t *fnTr) num(e ast.Expr) string {
	switch x := e.(type) {
	case *ast.BasicLit:
		if x.Kind == token.INT {
			v, ok := new(big.Int).SetString(x.Value, 0)
			if !ok {
				t.unsupported(e, "literal")
			}
			return v.String()
		}
	case *ast.Ident:
		if _, ok := t.p.consts[x.Name]; ok {
			return "c_" + x.Name
		}
		return "v_" + x.Name
	case *ast.ParenExpr:
		return t.num(x.X)
	case *ast.CallExpr:
		if id, ok := x.Fun.(*ast.Ident); ok && len(x.Args) == 1 {
			switch id.Name {
			case "uint64", "int", "int64", "uint":
				return t.num(x.Args[0])
			case "uint32":
				return "(wrap32 " + t.num(x.Args[0]) + ")"
			}
			if _, ok := t.p.funcs[id.Name]; ok && pureSet[id.Name] {
				if failedFns[id.Name] {
					t.unsupported(e, "call of the untranslated function "+id.Name)
				}
				return "(unwrap_num (g_" + id.Name + " " + t.num(x.Args[0]) + "))"
			}
		}
	case *ast.BinaryExpr:
		a, b := t.num(x.X), t.num(x.Y)
		switch x.Op {
		case token.ADD:
			return "(wrap64 (" + a + " + " + b + "))"
		case token.SUB:
			return "(wrap64 (" + a + " + two64 - " + b + "))"
		case token.MUL:
			return "(wrap64 (" + a + " * " + b + "))"
		case token.QUO:
			return "(" + a + " / " + b + ")"
		case token.SHL:
			return "(wrap64 (N.shiftl " + a + " " + b + "))"
		case token.SHR:
			return "(N.shiftr " + a + " " + b + ")"
		case token.OR:
			return "(N.lor " + a + " " + b + ")"
		case token.AND:
			return "(N.land " + a + " " + b + ")"
		}
	}
	t.unsupported(e, "numeric expression")
	return ""
}

// divisors appearing in an expression (for the division-by-zero guard)
func divisors(e ast.Expr, out *[]ast.Expr) {
	ast.Inspect(e, func(n ast.Node) bool {
		if b, ok := n.(*ast.BinaryExpr); ok && (b.Op == token.QUO || b.Op == token.REM) {
			*out = append(*out, b.Y)
		}
		return true
	})
}

func (t *fnTr) guard(e ast.Expr, body string) string {
	var ds []ast.Expr
	divisors(e, &ds)
	for _, d := range ds {
		body = "(if " + t.num(d) + " =? 0 then Panic else " + body + ")"
	}
	return body
}

func (t *fnTr) isBool(e ast.Expr) bool {
	switch x := e.(type) {
	case *ast.Ident:
		return t.bools[x.Name] || x.Name == "true" || x.Name == "false"
	case *ast.ParenExpr:
		return t.isBool(x.X)
	case *ast.UnaryExpr:
		return x.Op == token.NOT
	case *ast.BinaryExpr:
		switch x.Op {
		case token.EQL, token.NEQ, token.LSS, token.LEQ, token.GTR, token.GEQ, token.LAND, token.LOR:
			return true
		}
	}
	return false
}

func (t *fnTr) boolean(e ast.Expr) string {
	switch x := e.(type) {
	case *ast.Ident:
		if x.Name == "true" || x.Name == "false" {
			return x.Name
		}
		if t.bools[x.Name] {
			return "v_" + x.Name
		}
	case *ast.ParenExpr:
		return t.boolean(x.X)
	case *ast.UnaryExpr:
		if x.Op == token.NOT {
			return "(negb " + t.boolean(x.X) + ")"
		}
	case *ast.BinaryExpr:
		switch x.Op {
		case token.LAND:
			return "(" + t.boolean(x.X) + " && " + t.boolean(x.Y) + ")"
		case token.LOR:
			return "(" + t.boolean(x.X) + " || " + t.boolean(x.Y) + ")"
		}
		a, b := t.num(x.X), t.num(x.Y)
		switch x.Op {
		case token.EQL:
			return "(" + a + " =? " + b + ")"
		case token.NEQ:
			return "(negb (" + a + " =? " + b + "))"
		case token.LSS:
			return "(" + a + " <? " + b + ")"
		case token.LEQ:
			return "(" + a + " <=? " + b + ")"
		case token.GTR:
			return "(" + b + " <? " + a + ")"
		case token.GEQ:
			return "(" + b + " <=? " + a + ")"
		}
	}
	t.unsupported(e, "boolean expression")
	return ""
}

func (t *fnTr) value(e ast.Expr) string {
	if t.isBool(e) {
		return t.boolean(e)
	}
	return t.num(e)
}

// assigned variables of a statement list (without nested returns)
func assigned(stmts []ast.Stmt, out map[string]bool) {
	for _, s := range stmts {
		switch x := s.(type) {
		case *ast.AssignStmt:
			for _, l := range x.Lhs {
				if id, ok := l.(*ast.Ident); ok {
					out[id.Name] = true
				}
			}
		case *ast.IncDecStmt:
			if id, ok := x.X.(*ast.Ident); ok {
				out[id.Name] = true
			}
		case *ast.IfStmt:
			assigned(x.Body.List, out)
			if x.Else != nil {
				if b, ok := x.Else.(*ast.BlockStmt); ok {
					assigned(b.List, out)
				}
			}
		case *ast.BlockStmt:
			assigned(x.List, out)
		}
	}
}

func returns(stmts []ast.Stmt) bool {
	if len(stmts) == 0 {
		return false
	}
	switch x := stmts[len(stmts)-1].(type) {
	case *ast.ReturnStmt:
		return true
	case *ast.IfStmt:
		if x.Else == nil {
			return false
		}
		if b, ok := x.Else.(*ast.BlockStmt); ok {
			return returns(x.Body.List) && returns(b.List)
		}
	}
	return false
}

func tuple(vars []string) string {
	if len(vars) == 1 {
		return "v_" + vars[0]
	}
	var parts []string
	for _, v := range vars {
		parts = append(parts, "v_"+v)
	}
	return "(" + strings.Join(parts, ", ") + ")"
}

func pattern(vars []string) string {
	if len(vars) == 1 {
		return "v_" + vars[0]
	}
	var parts []string
	for _, v := range vars {
		parts = append(parts, "v_"+v)
	}
	return "'(" + strings.Join(parts, ", ") + ")"
}

// straight-line assignment statement as "let ... in" prefix
func (t *fnTr) assign(s ast.Stmt) string {
	switch x := s.(type) {
	case *ast.AssignStmt:
		if len(x.Lhs) != 1 || len(x.Rhs) != 1 {
			t.unsupported(s, "multi-assignment")
		}
		id, ok := x.Lhs[0].(*ast.Ident)
		if !ok {
			t.unsupported(s, "assignment target")
		}
		rhs := x.Rhs[0]
		var e ast.Expr
		switch x.Tok {
		case token.DEFINE, token.ASSIGN:
			e = rhs
			if t.isBool(rhs) {
				t.bools[id.Name] = true
			}
		default:
			op := map[token.Token]token.Token{token.ADD_ASSIGN: token.ADD, token.SUB_ASSIGN: token.SUB, token.MUL_ASSIGN: token.MUL,
				token.OR_ASSIGN: token.OR, token.AND_ASSIGN: token.AND, token.SHL_ASSIGN: token.SHL, token.SHR_ASSIGN: token.SHR, token.QUO_ASSIGN: token.QUO}[x.Tok]
			if op == token.ILLEGAL {
				t.unsupported(s, "assignment operator")
			}
			e = &ast.BinaryExpr{X: id, Op: op, Y: rhs}
		}
		return "let v_" + id.Name + " := " + t.value(e) + " in "
	case *ast.IncDecStmt:
		id, ok := x.X.(*ast.Ident)
		if !ok {
			t.unsupported(s, "inc/dec target")
		}
		if x.Tok == token.INC {
			return "let v_" + id.Name + " := wrap64 (v_" + id.Name + " + 1) in "
		}
		return "let v_" + id.Name + " := wrap64 (v_" + id.Name + " + two64 - 1) in "
	case *ast.DeclStmt:
		gd := x.Decl.(*ast.GenDecl)
		out := ""
		for _, sp := range gd.Specs {
			vs := sp.(*ast.ValueSpec)
			for i, n := range vs.Names {
				if id, ok := vs.Type.(*ast.Ident); ok && id.Name == "bool" {
					t.bools[n.Name] = true
					out += "let v_" + n.Name + " := false in "
				} else if i < len(vs.Values) {
					out += "let v_" + n.Name + " := " + t.value(vs.Values[i]) + " in "
				} else {
					out += "let v_" + n.Name + " := 0 in "
				}
			}
		}
		return out
	}
	t.unsupported(s, "statement")
	return ""
}

// a block of assignments only, as a function updating the tuple of vars
func (t *fnTr) assignBlock(stmts []ast.Stmt, vars []string) string {
	out := ""
	for _, s := range stmts {
		if is, ok := s.(*ast.IfStmt); ok && is.Else == nil && is.Init == nil {
			m := map[string]bool{}
			assigned(is.Body.List, m)
			vs := sortedKeys(m)
			out += "let " + pattern(vs) + " := if " + t.boolean(is.Cond) + " then " + t.assignBlock(is.Body.List, vs) + " else " + tuple(vs) + " in "
			continue
		}
		out += t.assign(s)
	}
	return out + tuple(vars)
}

func sortedKeys(m map[string]bool) []string {
	var ks []string
	for k := range m {
		ks = append(ks, k)
	}
	sort.Strings(ks)
	return ks
}

func (t *fnTr) ret(r *ast.ReturnStmt) string {
	if len(r.Results) == 0 { // bare return of named results
		return "Ok " + tuple(t.named)
	}
	res := r.Results
	if t.hasErr {
		last := res[len(res)-1]
		if id, ok := last.(*ast.Ident); !ok || id.Name != "nil" {
			return "Err"
		}
		res = res[:len(res)-1]
	}
	var parts []string
	body := ""
	for _, e := range res {
		parts = append(parts, t.value(e))
	}
	if len(parts) == 1 {
		body = "Ok " + parts[0]
	} else {
		body = "Ok (" + strings.Join(parts, ", ") + ")"
	}
	for _, e := range res {
		body = t.guard(e, body)
	}
	return body
}

// statements in tail position: produce a term of type result T
func (t *fnTr) tail(stmts []ast.Stmt) string {
	if len(stmts) == 0 {
		if len(t.named) > 0 {
			return "Ok " + tuple(t.named)
		}
		fail("%s: control reaches the end of the function without return", t.fd.Name.Name)
	}
	s, rest := stmts[0], stmts[1:]
	switch x := s.(type) {
	case *ast.ReturnStmt:
		return t.ret(x)
	case *ast.IfStmt:
		if x.Init != nil {
			t.unsupported(s, "if with init")
		}
		if returns(x.Body.List) {
			els := rest
			if x.Else != nil {
				b, ok := x.Else.(*ast.BlockStmt)
				if !ok {
					t.unsupported(s, "else-if")
				}
				els = append(append([]ast.Stmt{}, b.List...), rest...)
			}
			return "(if " + t.boolean(x.Cond) + " then " + t.tail(x.Body.List) + " else " + t.tail(els) + ")"
		}
		if x.Else != nil {
			t.unsupported(s, "if/else without return")
		}
		m := map[string]bool{}
		assigned(x.Body.List, m)
		vs := sortedKeys(m)
		return "(let " + pattern(vs) + " := if " + t.boolean(x.Cond) + " then " + t.assignBlock(x.Body.List, vs) + " else " + tuple(vs) + " in " + t.tail(rest) + ")"
	case *ast.SwitchStmt:
		if x.Tag != nil || x.Init != nil {
			t.unsupported(s, "switch with tag")
		}
		out := t.tail(rest2(rest, t))
		cl := x.Body.List
		for i := len(cl) - 1; i >= 0; i-- {
			cc := cl[i].(*ast.CaseClause)
			if len(cc.List) != 1 || !returns(cc.Body) {
				t.unsupported(cc, "case clause (need one condition and a returning body)")
			}
			out = "(if " + t.boolean(cc.List[0]) + " then " + t.tail(cc.Body) + " else " + out + ")"
		}
		return out
	case *ast.ForStmt:
		if x.Init != nil || x.Post != nil || x.Cond == nil {
			t.unsupported(s, "for loop with init/post or without condition")
		}
		m := map[string]bool{}
		assigned(x.Body.List, m)
		vs := sortedKeys(m)
		loop := "loop_fuel 64 (fun " + pattern(vs) + " => " + t.boolean(x.Cond) + ") (fun " + pattern(vs) + " => " + t.assignBlock(x.Body.List, vs) + ") " + tuple(vs)
		return "(match " + loop + " with None => OutOfFuel | Some " + strings.TrimPrefix(pattern(vs), "'") + " => " + t.tail(rest) + " end)"
	default:
		body := "(" + t.assign(s) + t.tail(rest) + ")"
		if as, ok := s.(*ast.AssignStmt); ok {
			for _, e := range as.Rhs {
				body = t.guard(e, body) // Go panics on an integer division by zero
			}
		}
		return body
	}
}

func rest2(r []ast.Stmt, t *fnTr) []ast.Stmt { return r }

var pureSet = map[string]bool{}

func (p *pkgInfo) translateFunc(name string) string {
	fd, ok := p.funcs[name]
	if !ok {
		fail("function %s not found in the source", name)
	}
	t := &fnTr{p: p, fd: fd, bools: map[string]bool{}}
	var params []string
	for _, f := range fd.Type.Params.List {
		for _, n := range f.Names {
			ty := "N"
			if id, ok := f.Type.(*ast.Ident); ok && id.Name == "bool" {
				t.bools[n.Name] = true
				ty = "bool"
			}
			params = append(params, "(v_"+n.Name+" : "+ty+")")
		}
	}
	prefix := ""
	if fd.Type.Results != nil {
		for _, f := range fd.Type.Results.List {
			if isErrorType(f.Type) {
				t.hasErr = true
				continue
			}
			cnt := len(f.Names)
			if cnt == 0 {
				cnt = 1
			}
			t.nres += cnt
			for _, n := range f.Names {
				t.named = append(t.named, n.Name)
				if id, ok := f.Type.(*ast.Ident); ok && id.Name == "bool" {
					t.bools[n.Name] = true
					prefix += "let v_" + n.Name + " := false in "
				} else {
					prefix += "let v_" + n.Name + " := 0 in "
				}
			}
		}
	}
	body := t.tail(fd.Body.List)
	return fmt.Sprintf("(* %s *)\nDefinition g_%s %s :=\n  %s%s.\n", fset.Position(fd.Pos()), name, strings.Join(params, " "), prefix, body)
}

// ---------------------------------------------------------------------------
// 2b. cursor loops of memUvarintReader: `for { b := S[C]; C++; if b < lastByte { ...return }; ... }`
// The receiver's fields r.S / r.C and their local copies S / C are one slice and
// one cursor; the generated function takes the slice and the cursor and returns
// the results together with the new cursor.  S[C] out of range is a Go panic.
// ---------------------------------------------------------------------------

func (p *pkgInfo) translateCursorLoop(key string) string {
	fd, ok := p.funcs[key]
	if !ok {
		fail("function %s not found in the source", key)
	}
	t := &fnTr{p: p, fd: fd, bools: map[string]bool{}}
	if fd.Type.Results != nil {
		for _, f := range fd.Type.Results.List {
			if isErrorType(f.Type) {
				t.hasErr = true
			}
		}
	}
	recv := ""
	if fd.Recv != nil && len(fd.Recv.List) > 0 && len(fd.Recv.List[0].Names) > 0 {
		recv = fd.Recv.List[0].Names[0].Name
	}
	isCursor := func(e ast.Expr) bool { // C or r.C
		if id, ok := e.(*ast.Ident); ok {
			return id.Name == "C"
		}
		if se, ok := e.(*ast.SelectorExpr); ok {
			if id, ok := se.X.(*ast.Ident); ok && id.Name == recv {
				return se.Sel.Name == "C"
			}
		}
		return false
	}
	isSlice := func(e ast.Expr) bool { // S or r.S
		if id, ok := e.(*ast.Ident); ok {
			return id.Name == "S"
		}
		if se, ok := e.(*ast.SelectorExpr); ok {
			if id, ok := se.X.(*ast.Ident); ok && id.Name == recv {
				return se.Sel.Name == "S"
			}
		}
		return false
	}
	var state []string // loop-carried numeric variables besides the cursor, in declaration order
	var loop *ast.ForStmt
	for _, st := range fd.Body.List {
		switch x := st.(type) {
		case *ast.DeclStmt:
			for _, sp := range x.Decl.(*ast.GenDecl).Specs {
				vs := sp.(*ast.ValueSpec)
				for i, n := range vs.Names {
					if i < len(vs.Values) && (isCursor(vs.Values[i]) || isSlice(vs.Values[i])) {
						continue // var C = r.C / var S = r.S
					}
					if i < len(vs.Values) {
						t.unsupported(st, "initialised declaration before the cursor loop")
					}
					state = append(state, n.Name)
				}
			}
		case *ast.ForStmt:
			if x.Init != nil || x.Cond != nil || x.Post != nil || loop != nil {
				t.unsupported(st, "loop shape")
			}
			loop = x
		default:
			t.unsupported(st, "statement outside the cursor loop")
		}
	}
	if loop == nil {
		t.unsupported(fd, "function without `for { }` loop")
	}
	var params, args string
	for _, v := range state {
		params += " (v_" + v + " : N)"
		args += " v_" + v
	}
	fname := "g_" + coqName(key)
	// statements of the loop body in continuation-passing style
	var body func(stmts []ast.Stmt) string
	retOf := func(r *ast.ReturnStmt) string {
		res := r.Results
		if t.hasErr && len(res) > 0 {
			last := res[len(res)-1]
			if id, ok := last.(*ast.Ident); !ok || id.Name != "nil" {
				return "Err"
			}
			res = res[:len(res)-1]
		}
		parts := []string{}
		for _, e := range res {
			parts = append(parts, t.value(e))
		}
		parts = append(parts, "v_C")
		if len(parts) == 1 {
			return "Ok v_C"
		}
		return "Ok (" + strings.Join(parts, ", ") + ")"
	}
	body = func(stmts []ast.Stmt) string {
		if len(stmts) == 0 {
			return "(" + fname + "_loop f v_S v_C" + args + ")"
		}
		st, rest := stmts[0], stmts[1:]
		switch x := st.(type) {
		case *ast.AssignStmt:
			if len(x.Lhs) == 1 && len(x.Rhs) == 1 {
				if ie, ok := x.Rhs[0].(*ast.IndexExpr); ok && isSlice(ie.X) && isCursor(ie.Index) && x.Tok == token.DEFINE {
					id := x.Lhs[0].(*ast.Ident)
					return "(match nthN v_S (N.to_nat v_C) with None => Panic | Some v_" + id.Name + " => " + body(rest) + " end)"
				}
				if isCursor(x.Lhs[0]) && isCursor(x.Rhs[0]) {
					return body(rest) // r.C = C
				}
			}
			return "(" + t.assign(st) + body(rest) + ")"
		case *ast.IncDecStmt:
			if isCursor(x.X) && x.Tok == token.INC {
				return "(let v_C := wrap64 (v_C + 1) in " + body(rest) + ")"
			}
			return "(" + t.assign(st) + body(rest) + ")"
		case *ast.ReturnStmt:
			return retOf(x)
		case *ast.IfStmt:
			if x.Init != nil || x.Else != nil || !returns(x.Body.List) {
				t.unsupported(st, "if inside the cursor loop (needs a returning body, no else)")
			}
			return "(if " + t.boolean(x.Cond) + " then " + body(x.Body.List) + " else " + body(rest) + ")"
		}
		t.unsupported(st, "statement inside the cursor loop")
		return ""
	}
	inits := ""
	for range state {
		inits += " 0"
	}
	return fmt.Sprintf("(* %s *)\nFixpoint %s_loop (fuel : nat) (v_S : list N) (v_C : N)%s {struct fuel} :=\n  match fuel with\n  | O => OutOfFuel\n  | S f => %s\n  end.\nDefinition %s (v_S : list N) (v_C : N) := %s_loop (S (length v_S)) v_S v_C%s.\n",
		fset.Position(fd.Pos()), fname, params, body(loop.Body.List), fname, fname, inits)
}

// ---------------------------------------------------------------------------
// 3. lock skeletons
// ---------------------------------------------------------------------------

func lockCall(e ast.Expr) string {
	c, ok := e.(*ast.CallExpr)
	if !ok {
		return ""
	}
	s, ok := c.Fun.(*ast.SelectorExpr)
	if !ok {
		return ""
	}
	switch s.Sel.Name {
	case "Lock", "RLock":
		return "KLock"
	case "Unlock", "RUnlock":
		return "KUnlock"
	}
	return ""
}

func touchesMutex(fd *ast.FuncDecl) bool {
	found := false
	ast.Inspect(fd.Body, func(n ast.Node) bool {
		if e, ok := n.(ast.Expr); ok && lockCall(e) != "" {
			found = true
		}
		return true
	})
	return found
}

func seq(parts []string) string {
	if len(parts) == 0 {
		return "KNop"
	}
	if len(parts) == 1 {
		return parts[0]
	}
	return "(KSeq " + parts[0] + " " + seq(parts[1:]) + ")"
}

func skelStmts(fn string, stmts []ast.Stmt) string {
	var parts []string
	for _, s := range stmts {
		parts = append(parts, skelStmt(fn, s))
	}
	// collapse runs of KNop
	var out []string
	for _, p := range parts {
		if p == "KNop" && len(out) > 0 && out[len(out)-1] == "KNop" {
			continue
		}
		out = append(out, p)
	}
	return seq(out)
}

func skelStmt(fn string, s ast.Stmt) string {
	switch x := s.(type) {
	case *ast.ExprStmt:
		if k := lockCall(x.X); k != "" {
			return k
		}
		return "KNop"
	case *ast.DeferStmt:
		if lockCall(x.Call) == "KUnlock" {
			return "KDeferUnlock"
		}
		if lockCall(x.Call) == "KLock" {
			fail("%s: deferred Lock at %s", fn, fset.Position(x.Pos()))
		}
		return "KNop"
	case *ast.ReturnStmt:
		return "KRet"
	case *ast.BlockStmt:
		return skelStmts(fn, x.List)
	case *ast.IfStmt:
		var parts []string
		if x.Init != nil {
			parts = append(parts, skelStmt(fn, x.Init))
		}
		els := "KNop"
		if x.Else != nil {
			els = skelStmt(fn, x.Else)
		}
		parts = append(parts, "(KIf "+skelStmts(fn, x.Body.List)+" "+els+")")
		return seq(parts)
	case *ast.ForStmt:
		return "(KLoop " + skelStmts(fn, x.Body.List) + ")"
	case *ast.RangeStmt:
		return "(KLoop " + skelStmts(fn, x.Body.List) + ")"
	case *ast.SwitchStmt:
		return skelCases(fn, x.Body.List)
	case *ast.TypeSwitchStmt:
		return skelCases(fn, x.Body.List)
	case *ast.SelectStmt:
		out := "KNop"
		for i := len(x.Body.List) - 1; i >= 0; i-- {
			cc := x.Body.List[i].(*ast.CommClause)
			out = "(KIf " + skelStmts(fn, cc.Body) + " " + out + ")"
		}
		return out
	case *ast.BranchStmt:
		fail("%s: break/continue/goto inside a function that locks a mutex (%s) is outside the supported subset", fn, fset.Position(x.Pos()))
	case *ast.GoStmt:
		return "KNop"
	case *ast.LabeledStmt:
		return skelStmt(fn, x.Stmt)
	}
	// assignments, declarations, inc/dec, send: no lock effect unless they contain a lock call
	found := false
	ast.Inspect(s, func(n ast.Node) bool {
		if e, ok := n.(ast.Expr); ok && lockCall(e) != "" {
			found = true
		}
		return true
	})
	if found {
		fail("%s: lock operation inside an expression at %s", fn, fset.Position(s.Pos()))
	}
	return "KNop"
}

func skelCases(fn string, clauses []ast.Stmt) string {
	out := "KNop"
	for i := len(clauses) - 1; i >= 0; i-- {
		cc := clauses[i].(*ast.CaseClause)
		out = "(KIf " + skelStmts(fn, cc.Body) + " " + out + ")"
	}
	return out
}

// ---------------------------------------------------------------------------
// 4. shared-write footprints
// ---------------------------------------------------------------------------

// callees by simple name (methods are matched by name only: an over-approximation)
func (p *pkgInfo) callGraph() map[string][]string {
	byName := map[string][]string{}
	for k := range p.funcs {
		n := k
		if i := strings.Index(k, "."); i >= 0 {
			n = k[i+1:]
		}
		byName[n] = append(byName[n], k)
	}
	g := map[string][]string{}
	for k, fd := range p.funcs {
		seen := map[string]bool{}
		ast.Inspect(fd.Body, func(n ast.Node) bool {
			c, ok := n.(*ast.CallExpr)
			if !ok {
				return true
			}
			var name string
			switch f := c.Fun.(type) {
			case *ast.Ident:
				name = f.Name
			case *ast.SelectorExpr:
				name = f.Sel.Name
			}
			for _, callee := range byName[name] {
				if !seen[callee] {
					seen[callee] = true
					g[k] = append(g[k], callee)
				}
			}
			return true
		})
		sort.Strings(g[k])
	}
	return g
}

func reach(g map[string][]string, roots []string) map[string]bool {
	seen := map[string]bool{}
	var visit func(string)
	visit = func(f string) {
		if seen[f] {
			return
		}
		seen[f] = true
		for _, c := range g[f] {
			visit(c)
		}
	}
	for _, r := range roots {
		visit(r)
	}
	return seen
}

// names of the *Segment-typed receiver and parameters of a function
func segmentVars(fd *ast.FuncDecl) map[string]bool {
	vars := map[string]bool{}
	add := func(fl *ast.FieldList) {
		if fl == nil {
			return
		}
		for _, f := range fl.List {
			t := f.Type
			if s, ok := t.(*ast.StarExpr); ok {
				t = s.X
			}
			if id, ok := t.(*ast.Ident); ok && id.Name == "Segment" {
				for _, n := range f.Names {
					vars[n.Name] = true
				}
			}
		}
	}
	add(fd.Recv)
	add(fd.Type.Params)
	return vars
}

// the Segment field an assignable expression is rooted at, or ""
func segField(e ast.Expr, segs map[string]bool) string {
	for {
		switch x := e.(type) {
		case *ast.IndexExpr:
			e = x.X
		case *ast.SliceExpr:
			e = x.X
		case *ast.ParenExpr:
			e = x.X
		case *ast.StarExpr:
			e = x.X
		case *ast.SelectorExpr:
			if id, ok := x.X.(*ast.Ident); ok && segs[id.Name] {
				return x.Sel.Name
			}
			e = x.X
		default:
			return ""
		}
	}
}

type footprint struct {
	fn, field    string
	locked       bool
	construction bool
	cachefill    bool
	pos          token.Position
}

func (p *pkgInfo) footprints() []footprint {
	g := p.callGraph()
	var readerRoots, ctorRoots []string
	for k, fd := range p.funcs {
		r := recvName(fd)
		exported := ast.IsExported(fd.Name.Name)
		switch {
		case k == "load" || k == "Load" || k == "initSegmentBase" || k == "New" || k == "newWithChunkMode":
			ctorRoots = append(ctorRoots, k)
		case exported && (r == "Segment" || r == "Dictionary" || r == "DictionaryIterator" || r == "PostingsList" ||
			r == "PostingsIterator" || r == "DocumentValueReader" || r == "Merger" || r == "CollectionStats"):
			readerRoots = append(readerRoots, k)
		case k == "Merge" || k == "merge" || k == "mergeSegmentBasesWriter":
			readerRoots = append(readerRoots, k)
		}
	}
	sort.Strings(readerRoots)
	sort.Strings(ctorRoots)
	// functions reachable from the read/merge APIs without passing through a constructor
	gNoCtor := map[string][]string{}
	isCtor := map[string]bool{}
	for _, c := range ctorRoots {
		isCtor[c] = true
	}
	for k, v := range g {
		if isCtor[k] {
			continue
		}
		for _, c := range v {
			if !isCtor[c] {
				gNoCtor[k] = append(gNoCtor[k], c)
			}
		}
	}
	fromReaders := reach(gNoCtor, readerRoots)
	var out []footprint
	var keys []string
	for k := range p.funcs {
		keys = append(keys, k)
	}
	sort.Strings(keys)
	for _, k := range keys {
		fd := p.funcs[k]
		segs := segmentVars(fd)
		if len(segs) == 0 {
			continue
		}
		var walk func(stmts []ast.Stmt, held bool) bool
		record := func(e ast.Expr, held bool, n ast.Node) {
			if f := segField(e, segs); f != "" {
				out = append(out, footprint{fn: k, field: f, locked: held, construction: !fromReaders[k],
					cachefill: f == "fieldFSTs", pos: fset.Position(n.Pos())})
			}
		}
		// reads of the mutex-protected cache outside the lock are recorded as (unlocked) entries too:
		// every access to a location that is written under the mutex must hold it
		reads := func(n ast.Node, held bool) {
			if n == nil || held {
				return
			}
			ast.Inspect(n, func(m ast.Node) bool {
				if _, isBlock := m.(*ast.BlockStmt); isBlock {
					return false // nested blocks are walked with their own lock state
				}
				if _, isFn := m.(*ast.FuncLit); isFn {
					return false
				}
				if se, ok := m.(*ast.SelectorExpr); ok {
					if id, ok := se.X.(*ast.Ident); ok && segs[id.Name] && se.Sel.Name == "fieldFSTs" {
						out = append(out, footprint{fn: k, field: "fieldFSTs(read)", locked: false, construction: !fromReaders[k],
							cachefill: true, pos: fset.Position(m.Pos())})
					}
				}
				return true
			})
		}
		walk = func(stmts []ast.Stmt, held bool) bool {
			for _, s := range stmts {
				switch x := s.(type) {
				case *ast.IfStmt:
					if x.Init != nil {
						reads(x.Init, held)
					}
					reads(x.Cond, held)
				case *ast.ForStmt:
					reads(x.Cond, held)
				case *ast.RangeStmt:
					reads(x.X, held)
				case *ast.SwitchStmt:
					reads(x.Tag, held)
				case *ast.BlockStmt:
				default:
					reads(s, held)
				}
				switch x := s.(type) {
				case *ast.ExprStmt:
					switch lockCall(x.X) {
					case "KLock":
						held = true
					case "KUnlock":
						held = false
					}
					if c, ok := x.X.(*ast.CallExpr); ok {
						if id, ok := c.Fun.(*ast.Ident); ok && id.Name == "delete" && len(c.Args) > 0 {
							record(c.Args[0], held, s)
						}
					}
				case *ast.AssignStmt:
					for _, l := range x.Lhs {
						record(l, held, s)
					}
				case *ast.IncDecStmt:
					record(x.X, held, s)
				case *ast.IfStmt:
					if x.Init != nil {
						held = walk([]ast.Stmt{x.Init}, held)
					}
					walk(x.Body.List, held)
					if x.Else != nil {
						walk([]ast.Stmt{x.Else}, held)
					}
				case *ast.BlockStmt:
					held = walk(x.List, held)
				case *ast.ForStmt:
					walk(x.Body.List, held)
				case *ast.RangeStmt:
					walk(x.Body.List, held)
				case *ast.SwitchStmt:
					for _, c := range x.Body.List {
						walk(c.(*ast.CaseClause).Body, held)
					}
				}
			}
			return held
		}
		walk(fd.Body.List, false)
	}
	return out
}

// ---------------------------------------------------------------------------
// 5. WriteTo shape
// ---------------------------------------------------------------------------

type writeToShape struct {
	bufferedWriter string // name of the bufio.Writer variable
	passesBuffered bool   // the work is handed the buffered writer (or a checked direct data write precedes)
	flushChecked   bool   // err = bw.Flush(); if err != nil { return ..., err }
	returnsErrors  bool   // every `if err != nil` block returns a non-nil error value
}

func (p *pkgInfo) writeTo(key string) writeToShape {
	fd, ok := p.funcs[key]
	var sh writeToShape
	if !ok {
		fail("%s not found", key)
	}
	stmts := fd.Body.List
	for _, s := range stmts {
		if a, ok := s.(*ast.AssignStmt); ok && len(a.Rhs) == 1 {
			if c, ok := a.Rhs[0].(*ast.CallExpr); ok {
				if se, ok := c.Fun.(*ast.SelectorExpr); ok {
					if id, ok := se.X.(*ast.Ident); ok && id.Name == "bufio" && strings.HasPrefix(se.Sel.Name, "NewWriter") {
						if l, ok := a.Lhs[0].(*ast.Ident); ok {
							sh.bufferedWriter = l.Name
						}
					}
				}
			}
		}
	}
	if sh.bufferedWriter == "" {
		return sh
	}
	// the buffered writer is an argument of some call (merge(..., bw, ...) / persistFooter(.., bw))
	ast.Inspect(fd.Body, func(n ast.Node) bool {
		if c, ok := n.(*ast.CallExpr); ok {
			for _, a := range c.Args {
				if id, ok := a.(*ast.Ident); ok && id.Name == sh.bufferedWriter {
					sh.passesBuffered = true
				}
			}
		}
		return true
	})
	sh.returnsErrors = true
	for i, s := range stmts {
		// err = bw.Flush() immediately followed by if err != nil { return ..., err }
		if a, ok := s.(*ast.AssignStmt); ok && len(a.Rhs) == 1 {
			if c, ok := a.Rhs[0].(*ast.CallExpr); ok {
				if se, ok := c.Fun.(*ast.SelectorExpr); ok && se.Sel.Name == "Flush" {
					if id, ok := se.X.(*ast.Ident); ok && id.Name == sh.bufferedWriter && i+1 < len(stmts) {
						if is, ok := stmts[i+1].(*ast.IfStmt); ok && errCheckReturns(is) {
							sh.flushChecked = true
						}
					}
				}
			}
		}
		if is, ok := s.(*ast.IfStmt); ok && isErrCheck(is) && !errCheckReturns(is) {
			sh.returnsErrors = false
		}
	}
	return sh
}

func isErrCheck(is *ast.IfStmt) bool {
	b, ok := is.Cond.(*ast.BinaryExpr)
	if !ok || b.Op != token.NEQ {
		return false
	}
	x, ok1 := b.X.(*ast.Ident)
	y, ok2 := b.Y.(*ast.Ident)
	return ok1 && ok2 && x.Name == "err" && y.Name == "nil"
}

// the block returns, and the returned error is not the literal nil
func errCheckReturns(is *ast.IfStmt) bool {
	if !isErrCheck(is) || len(is.Body.List) == 0 {
		return false
	}
	r, ok := is.Body.List[len(is.Body.List)-1].(*ast.ReturnStmt)
	if !ok {
		return false
	}
	if len(r.Results) == 0 {
		return true // named results: err is set
	}
	last := r.Results[len(r.Results)-1]
	if id, ok := last.(*ast.Ident); ok && id.Name == "nil" {
		return false
	}
	return true
}

// ---------------------------------------------------------------------------

func coqName(s string) string {
	return strings.NewReplacer(".", "_", "-", "_").Replace(s)
}

func main() {
	repo := flag.String("repo", "/repo", "ice source directory")
	out := flag.String("out", "Generated.v", "output file")
	flag.Parse()
	p := load(*repo)
	p.collectConsts()
	var b strings.Builder
	b.WriteString("(* Generated.v - regenerated from " + *repo + " by /verif/translator on every run. DO NOT EDIT. *)\n")
	b.WriteString("From Coq Require Import ZArith.\nFrom Ice Require Import Base Lock Conc Container GenLib.\nOpen Scope N_scope.\n\n(* ---- 1. constants ---- *)\n")
	sort.Strings(p.order)
	for _, n := range p.order {
		b.WriteString(fmt.Sprintf("Definition c_%s : N := %s.\n", n, p.consts[n].String()))
	}
	b.WriteString("\n(* ---- 2. pure functions ---- *)\n")
	pure := []string{"getChunkSize", "encodeFreqHasLocs", "decodeFreqHasLocs", "fSTValEncode1Hit", "fSTValDecode1Hit", "under32Bits", "numUvarintBytes", "totalUvarintBytes"}
	for _, f := range pure {
		pureSet[f] = true
	}
	for _, f := range pure {
		f := f
		b.WriteString(try("g_"+f, func() string { return p.translateFunc(f) }) + "\n")
	}
	b.WriteString("(* ---- 2b. cursor loops ---- *)\n")
	for _, f := range []string{"memUvarintReader.ReadUvarint", "memUvarintReader.SkipUvarint"} {
		f := f
		b.WriteString(try("g_"+coqName(f), func() string { return p.translateCursorLoop(f) }) + "\n")
	}
	b.WriteString("(* ---- 2c. loaders of the index structures ---- *)\n")
	for _, f := range []string{"parseFooter", "Segment.getDocStoredOffsetsOnly", "Segment.loadStoredFieldChunk", "Segment.loadFields", "Segment.loadFieldDocValueReader", "Segment.loadDvReaders", "Segment.getDocStoredOffsets", "Segment.getDocStoredMetaAndUnCompressed", "readChunkBoundary"} {
		f := f
		b.WriteString(try("g_"+coqName(f), func() string { return p.translateReader(f) }) + "\n")
	}
	b.WriteString("(* ---- 3. lock skeletons ---- *)\n")
	var keys []string
	for k := range p.funcs {
		keys = append(keys, k)
	}
	sort.Strings(keys)
	var skels []string
	for _, k := range keys {
		fd := p.funcs[k]
		if touchesMutex(fd) {
			b.WriteString(fmt.Sprintf("(* %s *)\nDefinition skel_%s : skel :=\n  %s.\n", fset.Position(fd.Pos()), coqName(k), skelStmts(k, fd.Body.List)))
			skels = append(skels, "skel_"+coqName(k))
		}
	}
	b.WriteString("Definition all_skels : list skel := [" + strings.Join(skels, "; ") + "].\n")
	// every x.Lock() / x.RLock() call expression of the package, counted over the syntax tree
	// (independently of the skeleton extraction): all of them must show up in the skeletons
	lockSites := 0
	for _, k := range keys {
		ast.Inspect(p.funcs[k], func(n ast.Node) bool {
			if e, ok := n.(ast.Expr); ok && lockCall(e) == "KLock" {
				lockSites++
			}
			return true
		})
	}
	b.WriteString(fmt.Sprintf("Definition lock_call_sites : N := %d.\n", lockSites))
	b.WriteString("\n(* ---- 4. writes to shared Segment state ---- *)\n")
	fps := p.footprints()
	fnIdx, fieldIdx := map[string]int{}, map[string]int{}
	var rows []string
	for _, f := range fps {
		if _, ok := fnIdx[f.fn]; !ok {
			fnIdx[f.fn] = len(fnIdx)
		}
		if _, ok := fieldIdx[f.field]; !ok {
			fieldIdx[f.field] = len(fieldIdx)
		}
		rows = append(rows, fmt.Sprintf("  (* %s writes Segment.%s at %s *)\n  mkWF %d %d %v %v %v", f.fn, f.field, f.pos, fnIdx[f.fn], fieldIdx[f.field], f.locked, f.construction, f.cachefill))
	}
	b.WriteString("Definition footprints : list wfoot := [\n" + strings.Join(rows, ";\n") + "\n].\n")
	b.WriteString("\n(* ---- 5. shape of the WriteTo functions ---- *)\n")
	for _, k := range []string{"Merger.WriteTo", "Segment.WriteTo"} {
		sh := p.writeTo(k)
		n := coqName(k)
		b.WriteString(fmt.Sprintf("Definition %s_has_buffered_writer : bool := %v.\n", n, sh.bufferedWriter != ""))
		b.WriteString(fmt.Sprintf("Definition %s_passes_buffered_writer : bool := %v.\n", n, sh.passesBuffered))
		b.WriteString(fmt.Sprintf("Definition %s_flush_checked : bool := %v.\n", n, sh.flushChecked))
		b.WriteString(fmt.Sprintf("Definition %s_error_checks_return_error : bool := %v.\n", n, sh.returnsErrors))
	}
	if err := os.WriteFile(*out, []byte(b.String()), 0o644); err != nil {
		fail("%v", err)
	}
}

package main

// Section 2c of the translator: the loaders that parse the index structures of
// a segment (footer.go parseFooter, load.go loadFields / loadStoredFieldChunk,
// read.go getDocStoredOffsetsOnly).  They are straight-line code and simple
// loops over
//     x, err := data.Read(a, b); if err != nil { return ..., err }
//     binary.BigEndian.Uint32/64, binary.Uvarint, integer arithmetic on
//     uint64 / uint32 / int, appends, map stores, struct field stores.
// They are compiled into the result monad of Base.v with Go's static types
// deciding the arithmetic (uint64 wraps modulo 2^64 in N, int is Z brought back
// into the int64 range by wrap_int).  Receiver fields that are read before they
// are written become parameters; the receiver fields written (or the struct
// built) are the result.  A loop becomes loop_fuel_r with the fuel as a
// parameter of the generated function.

import (
	"fmt"
	"go/ast"
	"go/token"
	"sort"
	"strings"
)

type rdTr struct {
	p       *pkgInfo
	fd      *ast.FuncDecl
	key     string
	types   map[string]string // mangled variable -> type
	bound   map[string]bool   // mangled variable -> already bound by a let
	params  []string          // free variables in order of first use
	written map[string]bool   // receiver / struct paths assigned
	recv    string            // receiver variable name ("" if none)
	structs map[string]string // local variable -> struct type name (rv := &footer{})
	retVar  string            // local struct variable returned
	hasLoop bool
	hasErr  bool
	// the function returns a pointer that may be nil: Ok None / Ok (Some fields)
	optional bool
	// an error-only function returned success before its end: the written state is filled in afterwards
	earlyRet bool
	needFuel bool // a translated callee takes fuel
	// functions outside ice that stay parameters of the translation: name -> Coq type
	externals map[string]string
}

// signatures of the loaders translated so far (for calls between them)
type rdSig struct {
	fuel     bool
	fixed    []string // parameter names
	free     []string // receiver paths of the callee, with the callee's receiver name as prefix
	recv     string
	optional bool
	results  []string // types of the non-error results
	exts     map[string]string // external functions the callee takes as parameters (passed on by a caller)
}

var rdSigs = map[string]rdSig{}

const writtenMark = "\x01WRITTEN\x01"

func (t *rdTr) bad(n ast.Node, what string) {
	fail("%s: unsupported %s at %s", t.key, what, fset.Position(n.Pos()))
}

// struct declarations of the package: type name -> ordered fields
type structField struct {
	name string
	typ  ast.Expr
}

func (p *pkgInfo) structDecl(name string) []structField {
	for _, f := range p.files {
		for _, d := range f.Decls {
			gd, ok := d.(*ast.GenDecl)
			if !ok || gd.Tok != token.TYPE {
				continue
			}
			for _, s := range gd.Specs {
				ts := s.(*ast.TypeSpec)
				st, ok := ts.Type.(*ast.StructType)
				if !ok || ts.Name.Name != name {
					continue
				}
				var out []structField
				for _, fl := range st.Fields.List {
					for _, n := range fl.Names {
						out = append(out, structField{n.Name, fl.Type})
					}
				}
				return out
			}
		}
	}
	return nil
}

// typeDecl returns the type expression a package-level type name is declared as
func (p *pkgInfo) typeDecl(name string) ast.Expr {
	for _, f := range p.files {
		for _, d := range f.Decls {
			gd, ok := d.(*ast.GenDecl)
			if !ok || gd.Tok != token.TYPE {
				continue
			}
			for _, s := range gd.Specs {
				if ts := s.(*ast.TypeSpec); ts.Name.Name == name {
					return ts.Type
				}
			}
		}
	}
	return nil
}

// Go type expression -> the translator's type name
func (t *rdTr) goType(e ast.Expr) string {
	switch x := e.(type) {
	case *ast.Ident:
		switch x.Name {
		case "uint64":
			return "u64"
		case "uint32":
			return "u32"
		case "uint16":
			return "u16"
		case "int":
			return "int"
		case "string":
			return "bytes"
		case "bool":
			return "bool"
		case "byte", "uint8":
			return "u8"
		}
		if t.p.structDecl(x.Name) != nil {
			return "struct:" + x.Name
		}
		// a named or alias type of the package with a non-struct underlying type
		if u := t.p.typeDecl(x.Name); u != nil {
			if _, isStruct := u.(*ast.StructType); !isStruct {
				return t.goType(u)
			}
		}
	case *ast.StarExpr:
		return t.goType(x.X)
	case *ast.ArrayType:
		if x.Len == nil {
			switch t.goType(x.Elt) {
			case "u8":
				return "bytes"
			case "u64":
				return "[]u64"
			case "bytes":
				return "[]bytes"
			}
		}
	case *ast.MapType:
		v := t.goType(x.Value)
		if strings.HasPrefix(v, "struct:") {
			v = "obj" // a pointer to an object built by another translated function
		}
		return "map:" + t.goType(x.Key) + ":" + v
	case *ast.SelectorExpr:
		if id, ok := x.X.(*ast.Ident); ok && id.Name == "segment" && x.Sel.Name == "Data" {
			return "data"
		}
	}
	return "?"
}

func coqType(ty string) string {
	switch ty {
	case "u64", "u32", "u16", "u8":
		return "N"
	case "int":
		return "Z"
	case "bytes", "data":
		return "bytes"
	case "bool":
		return "bool"
	case "[]u64":
		return "(list N)"
	case "[]bytes":
		return "(list bytes)"
	}
	if strings.HasPrefix(ty, "map:") {
		parts := strings.Split(ty, ":")
		return "(list (" + coqType(parts[1]) + " * " + coqType(parts[2]) + "))"
	}
	return "_"
}

// a.b.c -> ("a_b_c", type)
func (t *rdTr) path(e ast.Expr) (string, string, bool) {
	switch x := e.(type) {
	case *ast.Ident:
		if ty, ok := t.types[x.Name]; ok {
			return x.Name, ty, true
		}
		return x.Name, "", false
	case *ast.SelectorExpr:
		base, bty, ok := t.path(x.X)
		if !ok || !strings.HasPrefix(bty, "struct:") {
			return "", "", false
		}
		for _, f := range t.p.structDecl(strings.TrimPrefix(bty, "struct:")) {
			if f.name == x.Sel.Name {
				return base + "_" + x.Sel.Name, t.goType(f.typ), true
			}
		}
	}
	return "", "", false
}

// reference to a variable: free variables become parameters
func (t *rdTr) ref(name, ty string) string {
	if !t.bound[name] {
		t.bound[name] = true
		t.types[name] = ty
		t.params = append(t.params, name)
	}
	return "v_" + name
}

func lit(v string, ty string) string {
	if ty == "int" {
		return "(" + v + ")%Z"
	}
	return v + "%N"
}

// expression with its static type; want is used for untyped constants
func (t *rdTr) expr(e ast.Expr, want string) (string, string) {
	switch x := e.(type) {
	case *ast.BasicLit:
		if x.Kind == token.INT {
			if want == "" {
				want = "int"
			}
			return lit(x.Value, want), want
		}
	case *ast.ParenExpr:
		return t.expr(x.X, want)
	case *ast.Ident:
		if x.Name == "true" || x.Name == "false" {
			return x.Name, "bool"
		}
		if ty, ok := t.types[x.Name]; ok {
			return t.ref(x.Name, ty), ty
		}
		if v, ok := t.p.consts[x.Name]; ok {
			ty := want
			if ct, ok := t.p.constTypes[x.Name]; ok {
				ty = ct
			}
			if ty == "" {
				ty = "int"
			}
			if ty == "int" {
				return "(Z.of_N c_" + x.Name + ")", ty
			}
			_ = v
			return "c_" + x.Name, ty
		}
	case *ast.SelectorExpr:
		if id, ok := x.X.(*ast.Ident); ok {
			if s, ok := builtinConsts[id.Name+"."+x.Sel.Name]; ok {
				if want == "" {
					want = "int"
				}
				return lit(s, want), want
			}
		}
		if name, ty, ok := t.path(e); ok {
			return t.ref(name, ty), ty
		}
	case *ast.CallExpr:
		return t.call(x, want)
	case *ast.BinaryExpr:
		switch x.Op {
		case token.ADD, token.SUB, token.MUL:
			// the typed operand decides
			_, ta := t.peek(x.X)
			_, tb := t.peek(x.Y)
			ty := ta
			if ty == "" {
				ty = tb
			}
			if ty == "" {
				ty = want
			}
			if ty == "" {
				ty = "int"
			}
			a, _ := t.expr(x.X, ty)
			b, _ := t.expr(x.Y, ty)
			switch ty {
			case "int":
				op := map[token.Token]string{token.ADD: "Z.add", token.SUB: "Z.sub", token.MUL: "Z.mul"}[x.Op]
				return "(wrap_int (" + op + " " + a + " " + b + "))", ty
			case "u64":
				switch x.Op {
				case token.ADD:
					return "(wrap64 (" + a + " + " + b + "))", ty
				case token.SUB:
					return "(u64_sub " + a + " " + b + ")", ty
				case token.MUL:
					return "(wrap64 (" + a + " * " + b + "))", ty
				}
			case "u32":
				switch x.Op {
				case token.ADD:
					return "(wrap32 (" + a + " + " + b + "))", ty
				case token.MUL:
					return "(wrap32 (" + a + " * " + b + "))", ty
				}
			}
		case token.QUO:
			// only by a constant that is not zero (no run-time panic to model)
			inner := x.Y
			if c, ok := inner.(*ast.CallExpr); ok && len(c.Args) == 1 {
				inner = c.Args[0]
			}
			if v, ok := t.p.evalConst(inner); ok && v.Sign() > 0 {
				_, ta := t.peek(x.X)
				if ta == "u64" {
					a, _ := t.expr(x.X, "u64")
					b, _ := t.expr(x.Y, "u64")
					return "(N.div " + a + " " + b + ")", "u64"
				}
			}
		case token.EQL, token.NEQ, token.LSS, token.LEQ, token.GTR, token.GEQ:
			_, ta := t.peek(x.X)
			_, tb := t.peek(x.Y)
			ty := ta
			if ty == "" {
				ty = tb
			}
			if ty == "" {
				ty = "int"
			}
			a, _ := t.expr(x.X, ty)
			b, _ := t.expr(x.Y, ty)
			m := "N"
			if ty == "int" {
				m = "Z"
			}
			switch x.Op {
			case token.EQL:
				return "(" + m + ".eqb " + a + " " + b + ")", "bool"
			case token.NEQ:
				return "(negb (" + m + ".eqb " + a + " " + b + "))", "bool"
			case token.LSS:
				return "(" + m + ".ltb " + a + " " + b + ")", "bool"
			case token.LEQ:
				return "(" + m + ".leb " + a + " " + b + ")", "bool"
			case token.GTR:
				return "(" + m + ".ltb " + b + " " + a + ")", "bool"
			case token.GEQ:
				return "(" + m + ".leb " + b + " " + a + ")", "bool"
			}
		case token.LAND, token.LOR:
			a, _ := t.expr(x.X, "bool")
			b, _ := t.expr(x.Y, "bool")
			if x.Op == token.LAND {
				return "(andb " + a + " " + b + ")", "bool"
			}
			return "(orb " + a + " " + b + ")", "bool"
		}
	case *ast.UnaryExpr:
		if x.Op == token.NOT {
			a, _ := t.expr(x.X, "bool")
			return "(negb " + a + ")", "bool"
		}
	}
	t.bad(e, "expression")
	return "", ""
}

// static type of an expression without side effects on params ("" = untyped constant)
func (t *rdTr) peek(e ast.Expr) (string, string) {
	switch x := e.(type) {
	case *ast.BasicLit:
		return "", ""
	case *ast.ParenExpr:
		return t.peek(x.X)
	case *ast.Ident:
		if ty, ok := t.types[x.Name]; ok {
			return "", ty
		}
		if ct, ok := t.p.constTypes[x.Name]; ok {
			return "", ct
		}
		return "", ""
	case *ast.SelectorExpr:
		if id, ok := x.X.(*ast.Ident); ok {
			if _, ok := builtinConsts[id.Name+"."+x.Sel.Name]; ok {
				return "", ""
			}
		}
		if _, ty, ok := t.path(e); ok {
			return "", ty
		}
	case *ast.CallExpr:
		if id, ok := x.Fun.(*ast.Ident); ok {
			switch id.Name {
			case "uint64":
				return "", "u64"
			case "uint32":
				return "", "u32"
			case "uint16":
				return "", "u16"
			case "int":
				return "", "int"
			case "len":
				return "", "int"
			case "string":
				return "", "bytes"
			}
		}
		if sel, ok := x.Fun.(*ast.SelectorExpr); ok {
			switch sel.Sel.Name {
			case "Len":
				return "", "int"
			case "Uint64":
				return "", "u64"
			case "Uint32":
				return "", "u32"
			}
		}
	case *ast.BinaryExpr:
		switch x.Op {
		case token.ADD, token.SUB, token.MUL, token.QUO:
			if _, ta := t.peek(x.X); ta != "" {
				return "", ta
			}
			return t.peek(x.Y)
		default:
			return "", "bool"
		}
	case *ast.UnaryExpr:
		return "", "bool"
	}
	return "", ""
}

func (t *rdTr) call(x *ast.CallExpr, want string) (string, string) {
	if id, ok := x.Fun.(*ast.Ident); ok && len(x.Args) == 1 {
		switch id.Name {
		case "uint64", "uint32", "uint16", "int":
			to := map[string]string{"uint64": "u64", "uint32": "u32", "uint16": "u16", "int": "int"}[id.Name]
			_, from := t.peek(x.Args[0])
			if from == "" { // conversion of an untyped constant
				return t.expr(x.Args[0], to)
			}
			a, _ := t.expr(x.Args[0], from)
			switch from + ">" + to {
			case "u64>int":
				return "(int_of_u64 " + a + ")", to
			case "u32>int", "u16>int":
				return "(Z.of_N " + a + ")", to
			case "int>u64":
				return "(u64_of_int " + a + ")", to
			case "u32>u64", "u16>u64", "u16>u32":
				return a, to
			case "u64>u16", "u32>u16":
				return "(u16 " + a + ")", to
			case "u64>u32":
				return "(wrap32 " + a + ")", to
			case "int>u16":
				return "(u16 (u64_of_int " + a + "))", to
			case "int>u32":
				return "(wrap32 (u64_of_int " + a + "))", to
			}
			if from == to {
				return a, to
			}
		case "string":
			a, ty := t.expr(x.Args[0], "bytes")
			if ty == "bytes" {
				return a, "bytes"
			}
		case "len":
			a, ty := t.expr(x.Args[0], "")
			switch ty {
			case "bytes", "[]u64", "[]bytes":
				return "(Z.of_N (lenN " + a + "))", "int"
			}
		}
	}
	if sel, ok := x.Fun.(*ast.SelectorExpr); ok {
		switch sel.Sel.Name {
		case "Len": // data.Len()
			if len(x.Args) == 0 {
				a, ty := t.expr(sel.X, "")
				if ty == "data" {
					return "(Z.of_N (lenN " + a + "))", "int"
				}
			}
		}
	}
	t.bad(x, "call")
	return "", ""
}

func isBlank(e ast.Expr) bool {
	id, ok := e.(*ast.Ident)
	return ok && id.Name == "_"
}

func isIdent(e ast.Expr, name string) bool {
	id, ok := e.(*ast.Ident)
	return ok && id.Name == name
}

// bind the target of an assignment; returns the Coq binder name
func (t *rdTr) bind(lhs ast.Expr, ty string) string {
	if isBlank(lhs) {
		return "_"
	}
	switch x := lhs.(type) {
	case *ast.Ident:
		t.types[x.Name] = ty
		t.bound[x.Name] = true
		return "v_" + x.Name
	case *ast.SelectorExpr:
		if name, dty, ok := t.path(lhs); ok {
			if dty != ty {
				t.bad(lhs, "assignment of "+ty+" to a field of type "+dty)
			}
			t.bound[name] = true
			t.types[name] = dty
			t.written[name] = true
			return "v_" + name
		}
	}
	t.bad(lhs, "assignment target")
	return ""
}

// is the statement `if err != nil { return ..., <non-nil> }` ?
func (t *rdTr) isErrReturn(s ast.Stmt) bool {
	is, ok := s.(*ast.IfStmt)
	if !ok || is.Init != nil || is.Else != nil || len(is.Body.List) != 1 {
		return false
	}
	be, ok := is.Cond.(*ast.BinaryExpr)
	if !ok || be.Op != token.NEQ || !isIdent(be.X, "err") || !isIdent(be.Y, "nil") {
		return false
	}
	r, ok := is.Body.List[0].(*ast.ReturnStmt)
	if !ok || len(r.Results) == 0 {
		return false
	}
	return !isIdent(r.Results[len(r.Results)-1], "nil")
}

// names (mangled) assigned by a statement list, in the enclosing scope's terms
func (t *rdTr) assignedIn(stmts []ast.Stmt, out map[string]bool) {
	var lhs func(e ast.Expr)
	lhs = func(e ast.Expr) {
		switch x := e.(type) {
		case *ast.Ident:
			if x.Name != "_" && x.Name != "err" {
				out[x.Name] = true
			}
		case *ast.SelectorExpr:
			if name, _, ok := t.path(e); ok {
				out[name] = true
			}
		case *ast.IndexExpr:
			lhs(x.X)
		}
	}
	for _, s := range stmts {
		switch x := s.(type) {
		case *ast.AssignStmt:
			for _, l := range x.Lhs {
				lhs(l)
			}
		case *ast.IncDecStmt:
			lhs(x.X)
		case *ast.IfStmt:
			t.assignedIn(x.Body.List, out)
			if b, ok := x.Else.(*ast.BlockStmt); ok {
				t.assignedIn(b.List, out)
			}
		case *ast.ForStmt:
			t.assignedIn(x.Body.List, out)
		case *ast.BlockStmt:
			t.assignedIn(x.List, out)
		}
	}
}

func vtuple(vs []string) string {
	if len(vs) == 0 {
		return "tt"
	}
	var parts []string
	for _, v := range vs {
		parts = append(parts, "v_"+v)
	}
	if len(parts) == 1 {
		return parts[0]
	}
	return "(" + strings.Join(parts, ", ") + ")"
}

func vpattern(vs []string) string {
	if len(vs) == 0 {
		return "_"
	}
	if len(vs) == 1 {
		return "v_" + vs[0]
	}
	return "'" + vtuple(vs)
}

// statements, then the continuation k (a Coq term of type result _)
func (t *rdTr) stmts(list []ast.Stmt, k func() string) string {
	if len(list) == 0 {
		return k()
	}
	s, rest := list[0], list[1:]
	cont := func() string { return t.stmts(rest, k) }
	switch x := s.(type) {
	case *ast.DeclStmt:
		gd := x.Decl.(*ast.GenDecl)
		out := ""
		for _, sp := range gd.Specs {
			vs := sp.(*ast.ValueSpec)
			ty := t.goType(vs.Type)
			for i, n := range vs.Names {
				if i < len(vs.Values) {
					e, ety := t.expr(vs.Values[i], ty)
					out += "let " + t.bind(n, ety) + " := " + e + " in\n  "
					continue
				}
				zero := map[string]string{"u64": "0%N", "u32": "0%N", "u16": "0%N", "int": "0%Z", "bytes": "[]", "bool": "false", "[]u64": "[]", "[]bytes": "[]"}[ty]
				if zero == "" {
					t.bad(s, "zero value of "+ty)
				}
				out += "let " + t.bind(n, ty) + " := " + zero + " in\n  "
			}
		}
		return out + cont()
	case *ast.IncDecStmt:
		one := &ast.BasicLit{Kind: token.INT, Value: "1"}
		op := token.ADD
		if x.Tok == token.DEC {
			op = token.SUB
		}
		e, ty := t.expr(&ast.BinaryExpr{X: x.X, Op: op, Y: one}, "")
		return "let " + t.bind(x.X, ty) + " := " + e + " in\n  " + cont()
	case *ast.AssignStmt:
		return t.assign(x, rest, k)
	case *ast.IfStmt:
		if x.Init != nil {
			t.bad(s, "if with init")
		}
		// only `if cond { return <error> }`
		if x.Else == nil && len(x.Body.List) == 1 {
			if r, ok := x.Body.List[0].(*ast.ReturnStmt); ok && len(r.Results) > 0 && !isIdent(r.Results[len(r.Results)-1], "nil") {
				c, _ := t.expr(x.Cond, "bool")
				return "if " + c + " then Err else\n  " + cont()
			}
		}
		// if cond { return <success> }: the rest of the function is the else branch
		if x.Else == nil && len(x.Body.List) == 1 {
			if r, ok := x.Body.List[0].(*ast.ReturnStmt); ok {
				c, _ := t.expr(x.Cond, "bool")
				return "if " + c + " then " + t.ret(r) + " else\n  " + cont()
			}
		}
		// if cond { stmts } else { return <error> }: the rest of the function continues the then branch
		if eb, ok := x.Else.(*ast.BlockStmt); ok && len(eb.List) == 1 {
			if r, ok := eb.List[0].(*ast.ReturnStmt); ok && len(r.Results) > 0 && !isIdent(r.Results[len(r.Results)-1], "nil") {
				c, _ := t.expr(x.Cond, "bool")
				return "if " + c + " then (\n  " + t.stmts(append(append([]ast.Stmt{}, x.Body.List...), rest...), k) + ") else Err"
			}
		}
		// if c { x = e; ... } (plain assignments only): the variables keep their value otherwise
		if x.Else == nil && onlyAssignments(x.Body.List) {
			if be, ok := x.Cond.(*ast.BinaryExpr); !(ok && be.Op == token.NEQ && isIdent(be.Y, "nil")) {
				m := map[string]bool{}
				t.assignedIn(x.Body.List, m)
				vs := sortedKeys(m)
				for _, v := range vs {
					if !t.bound[v] {
						t.bad(s, "conditional assignment to a variable without a value")
					}
				}
				c, _ := t.expr(x.Cond, "bool")
				thenC := t.stmts(x.Body.List, func() string { return "Ok " + vtuple(vs) })
				return "do " + strings.TrimPrefix(vpattern(vs), "'") + " <- (if " + c + " then\n  " + thenC + "\n  else Ok " + vtuple(vs) + ");\n  " + cont()
			}
		}
		// if p != nil { assignments }: p is the optional result of a translated loader
		if be, ok := x.Cond.(*ast.BinaryExpr); ok && x.Else == nil && be.Op == token.NEQ && isIdent(be.Y, "nil") {
			if id, ok := be.X.(*ast.Ident); ok && t.types[id.Name] == "opt" {
				m := map[string]bool{}
				t.assignedIn(x.Body.List, m)
				vs := sortedKeys(m)
				t.types[id.Name] = "obj" // inside the branch the name stands for the object
				thenC := t.stmts(x.Body.List, func() string { return "Ok " + vtuple(vs) })
				t.types[id.Name] = "opt"
				return "do " + strings.TrimPrefix(vpattern(vs), "'") + " <- match v_" + id.Name + " with\n    | Some v_" + id.Name + " =>\n  " + thenC + "\n    | None => Ok " + vtuple(vs) + " end;\n  " + cont()
			}
		}
		t.bad(s, "if statement (only `if c { return ... }`, `if c { ... } else { return error }`, `if p != nil { assignments }`)")
	case *ast.ReturnStmt:
		return t.ret(x)
	case *ast.ForStmt:
		return t.loop(x, rest, k)
	case *ast.RangeStmt:
		return t.rangeLoop(x, rest, k)
	}
	t.bad(s, "statement")
	return ""
}

func (t *rdTr) ret(r *ast.ReturnStmt) string {
	res := r.Results
	if t.hasErr {
		if len(res) == 0 || !isIdent(res[len(res)-1], "nil") {
			return "Err"
		}
		res = res[:len(res)-1]
	}
	if len(res) == 0 {
		return "Ok " + writtenMark
	}
	if len(res) == 1 && t.optional {
		if isIdent(res[0], "nil") {
			return "Ok None"
		}
		if id, ok := res[0].(*ast.Ident); ok {
			if _, ok := t.structs[id.Name]; ok { // the fields this function gives a value, sorted by name
				var parts []string
				for _, w := range sortedKeys(t.written) {
					if strings.HasPrefix(w, id.Name+"_") {
						parts = append(parts, "v_"+w)
					}
				}
				return "Ok (Some (" + strings.Join(parts, ", ") + "))"
			}
		}
	}
	if len(res) == 1 {
		if id, ok := res[0].(*ast.Ident); ok {
			if sn, ok := t.structs[id.Name]; ok { // the struct built by the function, fields in declaration order
				var parts []string
				for _, f := range t.p.structDecl(sn) {
					parts = append(parts, "v_"+id.Name+"_"+f.name)
				}
				return "Ok (" + strings.Join(parts, ", ") + ")"
			}
		}
	}
	var parts []string
	pre := ""
	for i, e := range res {
		want := ""
		if i < len(t.resTypes()) {
			want = t.resTypes()[i]
		}
		// S[i] on a []uint64 as a result: the index is checked first (out of range panics)
		if ix, ok := e.(*ast.IndexExpr); ok {
			if sl, sty := t.expr(ix.X, ""); sty == "[]u64" {
				idx, _ := t.expr(ix.Index, "int")
				pre += fmt.Sprintf("do r_%d <- go_index %s %s;\n  ", i, sl, idx)
				parts = append(parts, fmt.Sprintf("r_%d", i))
				continue
			}
		}
		c, _ := t.expr(e, want)
		parts = append(parts, c)
	}
	if len(parts) == 1 {
		return pre + "Ok " + parts[0]
	}
	return pre + "Ok (" + strings.Join(parts, ", ") + ")"
}

func (t *rdTr) resTypes() []string {
	var out []string
	if t.fd.Type.Results == nil {
		return out
	}
	for _, f := range t.fd.Type.Results.List {
		if isErrorType(f.Type) {
			continue
		}
		n := len(f.Names)
		if n == 0 {
			n = 1
		}
		for i := 0; i < n; i++ {
			out = append(out, t.goType(f.Type))
		}
	}
	return out
}

func (t *rdTr) assign(x *ast.AssignStmt, rest []ast.Stmt, k func() string) string {
	cont := func() string { return t.stmts(rest, k) }
	// x, err := D.Read(a, b)  followed by  if err != nil { return ..., err }
	if len(x.Lhs) == 2 && len(x.Rhs) == 1 && isIdent(x.Lhs[1], "err") {
		if c, ok := x.Rhs[0].(*ast.CallExpr); ok {
			if sel, ok := c.Fun.(*ast.SelectorExpr); ok && sel.Sel.Name == "Read" && len(c.Args) == 2 {
				d, dty := t.expr(sel.X, "")
				if dty != "data" {
					t.bad(x, "Read on something that is not segment.Data")
				}
				if len(rest) == 0 || !t.isErrReturn(rest[0]) {
					t.bad(x, "data.Read whose error is not returned by the next statement")
				}
				a, _ := t.expr(c.Args[0], "int")
				b, _ := t.expr(c.Args[1], "int")
				v := t.bind(x.Lhs[0], "bytes")
				return "do " + v + " <- data_read_int " + d + " " + a + " " + b + ";\n  " + t.stmts(rest[1:], k)
			}
		}
	}
	// p, err := recv.loader(args...)  followed by the error return: a loader translated earlier
	if len(x.Lhs) == 2 && len(x.Rhs) == 1 && isIdent(x.Lhs[1], "err") {
		if c, ok := x.Rhs[0].(*ast.CallExpr); ok {
			if sel, ok := c.Fun.(*ast.SelectorExpr); ok && isIdent(sel.X, t.recv) && t.recv != "" {
				rty := strings.TrimPrefix(t.types[t.recv], "struct:")
				if sig, ok := rdSigs[rty+"."+sel.Sel.Name]; ok {
					if len(rest) == 0 || !t.isErrReturn(rest[0]) {
						t.bad(x, "call whose error is not returned by the next statement")
					}
					if len(c.Args) != len(sig.fixed) {
						t.bad(x, "argument count of the call")
					}
					call := "g_" + coqName(rty+"."+sel.Sel.Name)
					if sig.fuel {
						t.needFuel = true
						call += " fuel"
					}
					for _, e := range sortedKeysS(sig.exts) { // the callee's external parameters become the caller's
						t.externals[e] = sig.exts[e]
						call += " " + e
					}
					for _, a := range c.Args {
						e, _ := t.expr(a, "")
						call += " " + e
					}
					for _, f := range sig.free { // the callee's receiver fields are the caller's
						name := t.recv + strings.TrimPrefix(f, sig.recv)
						call += " " + t.ref(name, t.recvPathType(name))
					}
					ty := "obj"
					if sig.optional {
						ty = "opt"
					}
					return "do " + t.bind(x.Lhs[0], ty) + " <- " + call + ";\n  " + t.stmts(rest[1:], k)
				}
			}
		}
	}
	// a, b, err = recv.loader(args...) followed by the error return: several results
	if len(x.Lhs) >= 3 && len(x.Rhs) == 1 && isIdent(x.Lhs[len(x.Lhs)-1], "err") {
		if c, ok := x.Rhs[0].(*ast.CallExpr); ok {
			if sel, ok := c.Fun.(*ast.SelectorExpr); ok && isIdent(sel.X, t.recv) && t.recv != "" {
				rty := strings.TrimPrefix(t.types[t.recv], "struct:")
				if sig, ok := rdSigs[rty+"."+sel.Sel.Name]; ok && len(sig.results) == len(x.Lhs)-1 {
					if len(rest) == 0 || !t.isErrReturn(rest[0]) {
						t.bad(x, "call whose error is not returned by the next statement")
					}
					call := "g_" + coqName(rty+"."+sel.Sel.Name)
					if sig.fuel {
						t.needFuel = true
						call += " fuel"
					}
					for _, e := range sortedKeysS(sig.exts) { // the callee's external parameters become the caller's
						t.externals[e] = sig.exts[e]
						call += " " + e
					}
					for _, a := range c.Args {
						e, _ := t.expr(a, "")
						call += " " + e
					}
					for _, f := range sig.free {
						name := t.recv + strings.TrimPrefix(f, sig.recv)
						call += " " + t.ref(name, t.recvPathType(name))
					}
					var pats []string
					for i, l := range x.Lhs[:len(x.Lhs)-1] {
						pats = append(pats, t.bind(l, sig.results[i]))
					}
					return "do (" + strings.Join(pats, ", ") + ") <- " + call + ";\n  " + t.stmts(rest[1:], k)
				}
			}
		}
	}
	// v, err = ZSTDDecompress(dst, src) followed by the error return: zstd is a parameter of the
	// translated function (the destination only lends its capacity)
	if len(x.Lhs) == 2 && len(x.Rhs) == 1 && isIdent(x.Lhs[1], "err") {
		if c, ok := x.Rhs[0].(*ast.CallExpr); ok && isIdent(c.Fun, "ZSTDDecompress") && len(c.Args) == 2 {
			if len(rest) == 0 || !t.isErrReturn(rest[0]) {
				t.bad(x, "ZSTDDecompress whose error is not returned by the next statement")
			}
			src, _ := t.expr(c.Args[1], "bytes")
			t.externals["ext_ZSTDDecompress"] = "(bytes -> result bytes)"
			return "do " + t.bind(x.Lhs[0], "bytes") + " <- ext_ZSTDDecompress " + src + ";\n  " + t.stmts(rest[1:], k)
		}
	}
	// a, b := binary.Uvarint(buf)   (either side may be _ or an element of a slice)
	if len(x.Lhs) == 2 && len(x.Rhs) == 1 {
		if c, ok := x.Rhs[0].(*ast.CallExpr); ok {
			if sel, ok := c.Fun.(*ast.SelectorExpr); ok && sel.Sel.Name == "Uvarint" && isIdent(sel.X, "binary") && len(c.Args) == 1 {
				buf, _ := t.expr(c.Args[0], "bytes")
				if ix, ok := x.Lhs[0].(*ast.IndexExpr); ok { // S[i], n = binary.Uvarint(buf)
					sl, sty := t.expr(ix.X, "")
					if sty != "[]u64" {
						t.bad(x, "indexed store into "+sty)
					}
					i, _ := t.expr(ix.Index, "int")
					n := t.bind(x.Lhs[1], "int")
					tmp := "uv_" + strings.TrimPrefix(sl, "v_")
					out := "let '(" + tmp + ", " + n + ") := go_uvarint " + buf + " in\n  "
					out += "do " + t.bind(ix.X, "[]u64") + " <- go_slice_set " + sl + " " + i + " " + tmp + ";\n  "
					return out + cont()
				}
				a := t.bind(x.Lhs[0], "u64")
				b := t.bind(x.Lhs[1], "int")
				return "let '(" + a + ", " + b + ") := go_uvarint " + buf + " in\n  " + cont()
			}
		}
	}
	if len(x.Lhs) != 1 || len(x.Rhs) != 1 {
		t.bad(x, "multi-assignment")
	}
	lhs, rhs := x.Lhs[0], x.Rhs[0]
	// compound assignment
	if x.Tok != token.DEFINE && x.Tok != token.ASSIGN {
		op := map[token.Token]token.Token{token.ADD_ASSIGN: token.ADD, token.SUB_ASSIGN: token.SUB, token.MUL_ASSIGN: token.MUL}[x.Tok]
		if op == token.ILLEGAL {
			t.bad(x, "assignment operator")
		}
		e, ty := t.expr(&ast.BinaryExpr{X: lhs, Op: op, Y: rhs}, "")
		return "let " + t.bind(lhs, ty) + " := " + e + " in\n  " + cont()
	}
	// M[k] = v
	if ix, ok := lhs.(*ast.IndexExpr); ok {
		m, mty := t.expr(ix.X, "")
		if mty == "[]u64" {
			i, _ := t.expr(ix.Index, "int")
			vc, _ := t.expr(rhs, "u64")
			return "do " + t.bind(ix.X, mty) + " <- go_slice_set " + m + " " + i + " " + vc + ";\n  " + cont()
		}
		if !strings.HasPrefix(mty, "map:") {
			t.bad(x, "indexed store into "+mty)
		}
		parts := strings.Split(mty, ":")
		kc, _ := t.expr(ix.Index, parts[1])
		vc, _ := t.expr(rhs, parts[2])
		return "let " + t.bind(ix.X, mty) + " := (" + kc + ", " + vc + ") :: " + m + " in\n  " + cont()
	}
	if c, ok := rhs.(*ast.CallExpr); ok {
		// v := binary.BigEndian.Uint32/64(buf): panics when buf is too short
		if sel, ok := c.Fun.(*ast.SelectorExpr); ok && (sel.Sel.Name == "Uint32" || sel.Sel.Name == "Uint64") && len(c.Args) == 1 {
			if in, ok := sel.X.(*ast.SelectorExpr); ok && isIdent(in.X, "binary") && in.Sel.Name == "BigEndian" {
				buf, _ := t.expr(c.Args[0], "bytes")
				w, ty := "4", "u32"
				if sel.Sel.Name == "Uint64" {
					w, ty = "8", "u64"
				}
				return "do " + t.bind(lhs, ty) + " <- go_be_uint " + w + "%nat " + buf + ";\n  " + cont()
			}
		}
		if id, ok := c.Fun.(*ast.Ident); ok {
			switch id.Name {
			case "append": // S = append(S, x)
				if len(c.Args) == 2 {
					sl, sty := t.expr(c.Args[0], "")
					elt := map[string]string{"[]u64": "u64", "[]bytes": "bytes"}[sty]
					if elt == "" {
						t.bad(x, "append to "+sty)
					}
					v, _ := t.expr(c.Args[1], elt)
					return "let " + t.bind(lhs, sty) + " := " + sl + " ++ [" + v + "] in\n  " + cont()
				}
			case "make": // S = make([]uint64, n)
				if len(c.Args) == 2 && t.goType(c.Args[0]) == "[]u64" {
					_, nty := t.peek(c.Args[1])
					n, _ := t.expr(c.Args[1], nty)
					if nty == "int" {
						return "do " + t.bind(lhs, "[]u64") + " <- go_make_int " + n + ";\n  " + cont()
					}
					return "let " + t.bind(lhs, "[]u64") + " := repeat 0%N (N.to_nat " + n + ") in\n  " + cont()
				}
			}
		}
	}
	// rv := &T{}
	if u, ok := rhs.(*ast.UnaryExpr); ok && u.Op == token.AND {
		if cl, ok := u.X.(*ast.CompositeLit); ok && len(cl.Elts) > 0 {
			// p := &T{f: e, ...}: only the listed fields get a (modelled) value
			if id, ok := cl.Type.(*ast.Ident); ok && t.p.structDecl(id.Name) != nil {
				v := lhs.(*ast.Ident).Name
				t.types[v] = "struct:" + id.Name
				t.structs[v] = id.Name
				var assigns []ast.Stmt
				for _, el := range cl.Elts {
					kv, ok := el.(*ast.KeyValueExpr)
					if !ok {
						t.bad(x, "positional composite literal")
					}
					assigns = append(assigns, &ast.AssignStmt{Lhs: []ast.Expr{&ast.SelectorExpr{X: lhs, Sel: kv.Key.(*ast.Ident)}}, Tok: token.ASSIGN, Rhs: []ast.Expr{kv.Value}})
				}
				return t.stmts(append(assigns, rest...), k)
			}
		}
		if cl, ok := u.X.(*ast.CompositeLit); ok && len(cl.Elts) == 0 {
			if id, ok := cl.Type.(*ast.Ident); ok {
				if fields := t.p.structDecl(id.Name); fields != nil {
					v := lhs.(*ast.Ident).Name
					t.types[v] = "struct:" + id.Name
					t.structs[v] = id.Name
					out := ""
					for _, f := range fields {
						fty := t.goType(f.typ)
						zero := map[string]string{"u64": "0%N", "u32": "0%N", "u16": "0%N", "int": "0%Z"}[fty]
						if zero == "" {
							t.bad(x, "zero value of field "+f.name)
						}
						t.bound[v+"_"+f.name] = true
						t.types[v+"_"+f.name] = fty
						out += "let v_" + v + "_" + f.name + " := " + zero + " in\n  "
					}
					return out + cont()
				}
			}
		}
	}
	// v := S[i] on a []uint64 (index out of range panics)
	if ix, ok := rhs.(*ast.IndexExpr); ok {
		sl, sty := t.expr(ix.X, "")
		if sty == "[]u64" {
			i, _ := t.expr(ix.Index, "int")
			return "do " + t.bind(lhs, "u64") + " <- go_index " + sl + " " + i + ";\n  " + cont()
		}
	}
	// v := B[lo:hi] on a byte slice (bounds are checked against its length)
	if se, ok := rhs.(*ast.SliceExpr); ok && se.Low != nil && se.High != nil && se.Max == nil {
		b, bty := t.expr(se.X, "")
		if bty == "bytes" {
			lo, _ := t.expr(se.Low, "int")
			hi, _ := t.expr(se.High, "int")
			return "do " + t.bind(lhs, "bytes") + " <- go_slice " + b + " " + lo + " " + hi + ";\n  " + cont()
		}
	}
	// plain value; an existing variable keeps its type, := takes the type of the right-hand side
	want := ""
	if x.Tok == token.ASSIGN {
		if id, ok := lhs.(*ast.Ident); ok {
			want = t.types[id.Name]
		} else if _, ty, ok := t.path(lhs); ok {
			want = ty
		}
	}
	e, ty := t.expr(rhs, want)
	return "let " + t.bind(lhs, ty) + " := " + e + " in\n  " + cont()
}

// for Init; Cond; Post { Body }  and  for Cond { Body }
func (t *rdTr) loop(x *ast.ForStmt, rest []ast.Stmt, k func() string) string {
	if x.Cond == nil {
		t.bad(x, "for without condition")
	}
	t.hasLoop = true
	pre := ""
	if x.Init != nil {
		// the init statement is an ordinary assignment in front of the loop
		pre = t.stmts([]ast.Stmt{x.Init}, func() string { return "\x00" })
		pre = strings.TrimSuffix(pre, "\x00")
	}
	body := append([]ast.Stmt{}, x.Body.List...)
	if x.Post != nil {
		body = append(body, x.Post)
	}
	m := map[string]bool{}
	t.assignedIn(body, m)
	var vs []string
	for _, v := range sortedKeys(m) {
		// loop state: assigned in the body and living outside it
		_, isVar := t.types[v]
		if t.bound[v] || (isVar && strings.Contains(v, "_")) || t.isRecvPath(v) {
			vs = append(vs, v)
		}
	}
	// make sure every state variable has an initial value (free ones become parameters)
	for _, v := range vs {
		if !t.bound[v] {
			ty := t.recvPathType(v)
			t.ref(v, ty)
			t.written[v] = true
		}
	}
	saveBound := map[string]bool{}
	for k2, v := range t.bound {
		saveBound[k2] = v
	}
	cond, _ := t.expr(x.Cond, "bool")
	bodyC := t.stmts(body, func() string { return "Ok " + vtuple(vs) })
	// body-local bindings end with the body (parameters discovered inside stay)
	for k2 := range t.bound {
		if !saveBound[k2] && !contains(t.params, k2) {
			delete(t.bound, k2)
		}
	}
	out := pre + "do " + strings.TrimPrefix(vpattern(vs), "'") + " <- loop_fuel_r fuel\n    (fun " + vpattern(vs) + " => " + cond + ")\n    (fun " + vpattern(vs) + " =>\n  " + bodyC + ")\n    " + vtuple(vs) + ";\n  "
	return out + t.stmts(rest, k)
}

// for i, x := range S { body }: structural recursion over the list (GenLib.range_r)
func (t *rdTr) rangeLoop(x *ast.RangeStmt, rest []ast.Stmt, k func() string) string {
	sl, sty := t.expr(x.X, "")
	elt := map[string]string{"[]u64": "u64", "[]bytes": "bytes"}[sty]
	if elt == "" {
		t.bad(x, "range over "+sty)
	}
	idx, val := "_", "_"
	if id, ok := x.Key.(*ast.Ident); ok && id.Name != "_" {
		t.types[id.Name] = "int"
		t.bound[id.Name] = true
		idx = "v_" + id.Name
	}
	if x.Value != nil {
		if id, ok := x.Value.(*ast.Ident); ok && id.Name != "_" {
			t.types[id.Name] = elt
			t.bound[id.Name] = true
			val = "v_" + id.Name
		}
	}
	m := map[string]bool{}
	t.assignedIn(x.Body.List, m)
	var vs []string
	for _, v := range sortedKeys(m) {
		_, isVar := t.types[v]
		if t.bound[v] || (isVar && strings.Contains(v, "_")) || t.isRecvPath(v) {
			if v == strings.TrimPrefix(idx, "v_") || v == strings.TrimPrefix(val, "v_") {
				continue
			}
			vs = append(vs, v)
		}
	}
	for _, v := range vs {
		if !t.bound[v] {
			t.ref(v, t.recvPathType(v))
			t.written[v] = true
		}
	}
	saveBound := map[string]bool{}
	for k2, v := range t.bound {
		saveBound[k2] = v
	}
	bodyC := t.stmts(x.Body.List, func() string { return "Ok " + vtuple(vs) })
	for k2 := range t.bound {
		if !saveBound[k2] && !contains(t.params, k2) {
			delete(t.bound, k2)
		}
	}
	out := "do " + strings.TrimPrefix(vpattern(vs), "'") + " <- range_r\n    (fun " + idx + " " + val + " " + vpattern(vs) + " =>\n  " + bodyC + ")\n    0%Z " + sl + " " + vtuple(vs) + ";\n  "
	return out + t.stmts(rest, k)
}

func sortedKeysS(m map[string]string) []string {
	var ks []string
	for k := range m {
		ks = append(ks, k)
	}
	sort.Strings(ks)
	return ks
}

func onlyAssignments(list []ast.Stmt) bool {
	if len(list) == 0 {
		return false
	}
	for _, s := range list {
		a, ok := s.(*ast.AssignStmt)
		if !ok || len(a.Lhs) != 1 || len(a.Rhs) != 1 {
			return false
		}
		if _, ok := a.Lhs[0].(*ast.Ident); !ok {
			return false
		}
		if _, ok := a.Rhs[0].(*ast.CallExpr); ok {
			return false
		}
	}
	return true
}

func contains(l []string, s string) bool {
	for _, x := range l {
		if x == s {
			return true
		}
	}
	return false
}

func (t *rdTr) isRecvPath(v string) bool {
	return t.recv != "" && strings.HasPrefix(v, t.recv+"_")
}

func (t *rdTr) recvPathType(v string) string {
	if ty, ok := t.types[v]; ok {
		return ty
	}
	// resolve recv_a_b through the struct declarations
	parts := strings.Split(v, "_")
	ty := t.types[parts[0]]
	for _, f := range parts[1:] {
		if !strings.HasPrefix(ty, "struct:") {
			return "?"
		}
		found := false
		for _, sf := range t.p.structDecl(strings.TrimPrefix(ty, "struct:")) {
			if sf.name == f {
				ty = t.goType(sf.typ)
				found = true
			}
		}
		if !found {
			return "?"
		}
	}
	return ty
}

func (p *pkgInfo) translateReader(key string) string {
	fd, ok := p.funcs[key]
	if !ok {
		fail("function %s not found in the source", key)
	}
	t := &rdTr{p: p, fd: fd, key: key, types: map[string]string{}, bound: map[string]bool{}, written: map[string]bool{}, structs: map[string]string{}, externals: map[string]string{}}
	if fd.Recv != nil && len(fd.Recv.List) == 1 && len(fd.Recv.List[0].Names) == 1 {
		t.recv = fd.Recv.List[0].Names[0].Name
		t.types[t.recv] = t.goType(fd.Recv.List[0].Type)
	}
	var fixed []string
	for _, f := range fd.Type.Params.List {
		for _, n := range f.Names {
			ty := t.goType(f.Type)
			if ty == "?" {
				t.bad(f, "parameter type")
			}
			t.types[n.Name] = ty
			t.bound[n.Name] = true
			fixed = append(fixed, n.Name)
		}
	}
	prefix := ""
	if fd.Type.Results != nil {
		for _, f := range fd.Type.Results.List {
			if isErrorType(f.Type) {
				t.hasErr = true
				continue
			}
			for _, n := range f.Names { // named results start at their zero value
				ty := t.goType(f.Type)
				zero := map[string]string{"u64": "0%N", "u32": "0%N", "int": "0%Z", "bytes": "([] : bytes)"}[ty]
				if zero == "" {
					t.bad(f, "named result type")
				}
				t.types[n.Name] = ty
				t.bound[n.Name] = true
				prefix += "let v_" + n.Name + " := " + zero + " in\n  "
			}
		}
	}
	if fd.Type.Results != nil && len(fd.Type.Results.List) == 2 {
		if _, ok := fd.Type.Results.List[0].Type.(*ast.StarExpr); ok {
			ast.Inspect(fd.Body, func(n ast.Node) bool {
				if r, ok := n.(*ast.ReturnStmt); ok && len(r.Results) == 2 && isIdent(r.Results[0], "nil") && isIdent(r.Results[1], "nil") {
					t.optional = true
				}
				return true
			})
		}
	}
	// a success return of an error-only function before its last statement
	if n := len(fd.Body.List); n > 0 {
		last := fd.Body.List[n-1]
		ast.Inspect(fd.Body, func(nd ast.Node) bool {
			if r, ok := nd.(*ast.ReturnStmt); ok && ast.Node(r) != ast.Node(last) && len(r.Results) == 1 && isIdent(r.Results[0], "nil") {
				t.earlyRet = true
			}
			return true
		})
	}
	body := t.stmts(fd.Body.List, func() string {
		if !t.hasErr || len(t.resTypes()) > 0 {
			fail("%s: control reaches the end of the function", key)
		}
		return "Ok " + writtenMark
	})
	// the receiver state an error-only function leaves behind; on an early return the fields
	// not yet assigned still have their initial value, which is then a parameter
	if strings.Contains(body, writtenMark) {
		if t.earlyRet {
			for _, w := range sortedKeys(t.written) {
				if !contains(t.params, w) {
					t.params = append(t.params, w)
				}
			}
		}
		body = strings.ReplaceAll(body, writtenMark, vtuple(sortedKeys(t.written)))
	}
	var ps []string
	if t.hasLoop || t.needFuel {
		ps = append(ps, "(fuel : nat)")
	}
	var free []string
	for _, n := range t.params {
		free = append(free, n)
	}
	for _, e := range sortedKeysS(t.externals) {
		ps = append(ps, "("+e+" : "+t.externals[e]+")")
	}
	rdSigs[key] = rdSig{fuel: t.hasLoop || t.needFuel, fixed: fixed, free: free, recv: t.recv, optional: t.optional, results: t.resTypes(), exts: t.externals}
	for _, n := range fixed {
		ps = append(ps, "(v_"+n+" : "+coqType(t.types[n])+")")
	}
	for _, n := range t.params {
		ps = append(ps, "(v_"+n+" : "+coqType(t.types[n])+")")
	}
	var outs []string
	for _, w := range sortedKeys(t.written) {
		outs = append(outs, w)
	}
	sort.Strings(outs)
	doc := ""
	if len(outs) > 0 {
		doc = " writes: " + strings.Join(outs, ", ")
	}
	return fmt.Sprintf("(* %s%s *)\nDefinition g_%s %s :=\n  %s%s.\n", fset.Position(fd.Pos()), doc, coqName(key), strings.Join(ps, " "), prefix, body)
}
